"""C02 — only Liquid errors escape parsing and rendering.

Decided with the EXC engine (``sa/engines/exc.py``: exception-escape analysis with kind
inference, a closed table of risk primitives, handler subtraction over the exception
hierarchy, context-sensitive summaries, decorator algebra for the filter wrappers):

  C02-ESCAPE  no (risk primitive, non-Liquid exception class) pair escapes ``BoundTemplate.render``
              or ``render_async``.  Every pair that the analysis cannot discharge is attributed
              to the construct it escapes through (the filter implementation, node
              ``render_to_output*`` or expression ``evaluate*`` nearest to the site) and must be a
              *reviewed row* below — a site read by hand whose safety argument is a value-level
              fact the kind lattice cannot express (each with its reason, some with a
              machine-checked side condition) — or a listed known finding.  Anything else is a
              violation, reported with the witness chain boundary > ... > site.
  C02-PARSE   ``Environment.from_string`` runs ``self._parse(source)`` inside a ``try`` whose
              handlers re-raise the Liquid syntax family and convert *every other* ``Exception``
              into ``LiquidError``; nothing but the template constructor follows it; and the
              escape set of ``from_string`` itself contains no non-Liquid class.  ``BaseLoader.load``
              (hence include/render/extends) parses through ``from_string``.
  C02-FUNNEL  each filter decorator wrapper (string/array/sequence/liquid/math/unit) calls the
              decorated filter inside ``try`` with an ``except TypeError`` clause that raises a
              LiquidError subclass, and ``Filter.evaluate*`` do the same around the dynamic filter
              call — the reason TypeError never needs to be discharged inside a filter body.

Scope and assumptions (also in the evidence):
  * data are JSON-like values (None, bool, int incl. huge, float incl. inf/nan, str incl. lone
    surrogates, list, dict) plus ``range``, ``Undefined`` and ``Markup``; user drops and custom
    filters/tags are outside;
  * ``str(x)`` of a data value that may be an int (or a list/dict holding one) is a ValueError
    site (int/str conversion limit), and so is f-string interpolation ``f"{x}"`` of such a value
    (primitive ``str(int) fstring:<arg>``);
  * AttributeError / TypeError on values whose kinds are unknown (anything that may be a repo
    object) are not armed; RecursionError / MemoryError belong to C09;
  * third-party internals beyond the trusted rows of the primitive table are not decided.
"""

from __future__ import annotations

import ast

from ..astutil import call_recv, callee_name, calls, handler_types, is_name, text, unwrap_await
from ..core import Result
from ..engines import hnd
from ..engines.exc import Exc
from ..model import AnchorMissing, Repo, walk_no_nested

PID = "C02"
MIN_OBLIGATIONS = 200
LE = "liquid.builtin.expressions.loop.LoopExpression"


# ---------------------------------------------------------------------------------------------
# side conditions of reviewed rows
def _cond_slice_offset(repo: Repo) -> str | None:
    """``_slice`` receives ``offset`` as None, the literal 'continue', or an int from _to_int — on
    every path of ``evaluate`` / ``evaluate_async`` (private helpers inlined).  Abstract value of the
    local handed over as ``offset=``: NONE (``= None``), INT (``= ..._to_int(...)``), CONT (known to
    equal 'continue' by a test on that path), RAW (anything else).  RAW must not reach ``_slice``."""
    from ..normalize import nfunc

    for m in ("evaluate", "evaluate_async"):
        f0 = repo.own_method(LE, m)
        f = nfunc(repo, f0, keep=("_slice", "_to_iter", "_to_int"))
        sl = [c for c in calls(f.node) if callee_name(c) == "_slice"]
        vs = {text(k.value) for c in sl for k in c.keywords if k.arg == "offset"}
        if not sl or len(vs) != 1 or not all(isinstance(k.value, ast.Name) for c in sl for k in c.keywords if k.arg == "offset"):
            return f"{f0.qual}: _slice is not called with offset=<one local>"
        var = next(iter(vs))
        bad: list[str] = []

        def is_cont_test(t, src):
            """(is a test of the offset against 'continue', polarity) — the offset being the local
            itself or the expression it was just assigned from"""
            if isinstance(t, ast.Compare) and len(t.ops) == 1 and isinstance(t.ops[0], (ast.Eq, ast.NotEq)):
                l, r = t.left, t.comparators[0]
                if isinstance(l, ast.Constant):
                    l, r = r, l
                if isinstance(r, ast.Constant) and r.value == "continue":
                    return True, isinstance(t.ops[0], ast.Eq)
            return False, None

        def classify(e, known_cont: set):
            e = unwrap_await(e) if e is not None else None
            if e is None or (isinstance(e, ast.Constant) and e.value is None):
                return "NONE"
            if isinstance(e, ast.Call) and callee_name(e) == "_to_int":
                return "INT"
            if isinstance(e, ast.Name) and e.id == var:
                return None  # unchanged
            if text(e) in known_cont:
                return "CONT"
            return "RAW"

        def block(body, states):
            for st in body:
                nxt = []
                for val, src, known in states:
                    nxt += stmt(st, val, src, known)
                states = nxt
                if not states:
                    break
            return states

        def stmt(st, val, src, known):
            if isinstance(st, (ast.Return, ast.Raise)):
                check(st, val)
                return []
            if isinstance(st, ast.If):
                hit, eq = is_cont_test(st.test, src)
                if hit:
                    # which expression is known to be 'continue' on the equal side
                    l = st.test.left if not isinstance(st.test.left, ast.Constant) else st.test.comparators[0]
                    k_eq = known | {text(l)}
                    v_eq = "CONT" if (is_name(l, var) or (src is not None and text(l) == src)) and val == "RAW" else val
                    t_states = [(v_eq if eq else val, src, k_eq if eq else known)]
                    f_states = [(val if eq else v_eq, src, known if eq else k_eq)]
                else:
                    t_states = f_states = [(val, src, known)]
                out = block(st.body, list(t_states))
                out += block(st.orelse, list(f_states)) if st.orelse else list(f_states)
                return out
            if isinstance(st, (ast.For, ast.AsyncFor, ast.While, ast.With, ast.AsyncWith, ast.Try)):
                for sub in ast.walk(st):
                    if isinstance(sub, ast.Call) and callee_name(sub) == "_slice":
                        check(sub, val)
                return [(val, src, known)]
            tgt = v = None
            if isinstance(st, ast.Assign) and len(st.targets) == 1:
                tgt, v = st.targets[0], st.value
            elif isinstance(st, ast.AnnAssign):
                tgt, v = st.target, st.value
            check(st, val)
            if tgt is not None and is_name(tgt, var) and v is not None:
                c = classify(v, known)
                if c is not None:
                    return [(c, text(unwrap_await(v)), known)]
            return [(val, src, known)]

        def check(st, val):
            for c in ast.walk(st):
                if isinstance(c, ast.Call) and callee_name(c) == "_slice" and val == "RAW":
                    bad.append(f"{f0.qual}: the offset can reach _slice as an unvalidated value (neither None, the literal 'continue' nor a _to_int(...) result) at line {getattr(c, 'lineno', 0)}")

        block(f.node.body, [("NONE", None, frozenset())])
        if bad:
            return bad[0]
    return None


def _cond_slice_clamped(repo: Repo) -> str | None:
    """both islice bounds are min(max(x, 0), length) shapes and length comes from len()/0/1."""
    sl = repo.own_method(LE, "_slice")
    from .. import symb

    try:
        summ = symb.summarise(sl.node)
    except symb.Unsupported as e:
        return f"_slice is no longer straight-line code ({e})"
    for _c, e in summ.returns:
        e2 = ast.parse(symb.norm(e), mode="eval").body
        for c in ast.walk(e2):
            if isinstance(c, ast.Call) and callee_name(c) == "islice":
                for a in c.args[1:]:
                    t = text(a)
                    body = a.orelse if isinstance(a, ast.IfExp) else a
                    if isinstance(a, ast.IfExp) and not is_name(a.body, "length"):
                        return f"islice bound `{t[:60]}` is not clamped"
                    if not (isinstance(body, ast.Call) and is_name(body.func, "min") and "max(" in text(body) and "length" in text(body)):
                        return f"islice bound `{t[:60]}` is not min(max(x, 0), length)"
    return None


def _cond_cycle_nonneg(repo: Repo) -> str | None:
    """``RenderContext.cycle`` returns a value of the 'cycles' namespace: the setdefault default
    is a non-negative constant, every store is ``<e> % (length or <positive const>)`` and every
    caller passes ``len(...)`` as the length; nothing else writes tag_namespace['cycles']."""
    cy = repo.own_method("liquid.context.RenderContext", "cycle")
    params = cy.params()
    if len(params) < 3:
        return "RenderContext.cycle no longer takes (key, length)"
    length = params[2]
    ns = None
    for n in walk_no_nested(cy.node):
        tgt, val = (n.targets[0], n.value) if isinstance(n, ast.Assign) and len(n.targets) == 1 else (n.target, n.value) if isinstance(n, ast.AnnAssign) else (None, None)
        if isinstance(tgt, ast.Name) and val is not None and text(val) == "self.tag_namespace['cycles']":
            ns = tgt.id
    NS = "self.tag_namespace['cycles']"

    def is_ns(e) -> bool:
        """the cycles table, read in place or through the local it was bound to"""
        return (ns is not None and is_name(e, ns)) or text(e) == NS

    if ns is None and NS not in text(cy.node):
        return "RenderContext.cycle no longer reads self.tag_namespace['cycles']"
    rets = [n.value for n in walk_no_nested(cy.node) if isinstance(n, ast.Return)]
    sa_ = {}
    for n in walk_no_nested(cy.node):
        if isinstance(n, ast.Assign) and len(n.targets) == 1 and isinstance(n.targets[0], ast.Name):
            sa_.setdefault(n.targets[0].id, []).append(n.value)
    for r in rets:
        vals = sa_.get(r.id, []) if isinstance(r, ast.Name) else [r]
        if not vals:
            return f"cycle returns `{text(r)}` which is not a local bound in the function"
        for v in vals:
            ok = isinstance(v, ast.Call) and callee_name(v) == "setdefault" and isinstance(v.func, ast.Attribute) and is_ns(call_recv(v)) and len(v.args) == 2 and isinstance(v.args[1], ast.Constant) and isinstance(v.args[1].value, int) and v.args[1].value >= 0
            if not ok:
                return f"cycle returns `{text(v)[:60]}`, not `<cycles table>.setdefault(key, <const >= 0>)`"
    for n in walk_no_nested(cy.node):
        if isinstance(n, (ast.Assign, ast.AugAssign)):
            tg = n.targets if isinstance(n, ast.Assign) else [n.target]
            for t in tg:
                if isinstance(t, ast.Subscript) and is_ns(t.value):
                    v = n.value
                    ok = (
                        isinstance(n, ast.Assign)
                        and isinstance(v, ast.BinOp)
                        and isinstance(v.op, ast.Mod)
                        and (
                            (isinstance(v.right, ast.BoolOp) and isinstance(v.right.op, ast.Or) and len(v.right.values) == 2 and is_name(v.right.values[0], length) and isinstance(v.right.values[1], ast.Constant) and isinstance(v.right.values[1].value, int) and v.right.values[1].value > 0)
                            or (isinstance(v.right, ast.Constant) and isinstance(v.right.value, int) and v.right.value > 0)
                        )
                    )
                    if not ok:
                        return f"cycle stores `{text(v)[:60]}` — not `<e> % ({length} or <positive const>)`, so a negative index could be returned later"
    for f in repo.all_functions():
        for c in calls(f.node):
            if callee_name(c) == "cycle" and isinstance(c.func, ast.Attribute) and text(call_recv(c)) in ("context", "self", "ctx"):
                b = c.args[1] if len(c.args) > 1 else next((k.value for k in c.keywords if k.arg == length), None)
                if not (isinstance(b, ast.Call) and is_name(b.func, "len")):
                    return f"{f.qual} calls cycle() with length `{text(b) if b is not None else '?'}` which is not a len(...)"
        if f.qual != cy.qual:
            for n in ast.walk(f.node):
                if isinstance(n, ast.Subscript) and isinstance(n.ctx, (ast.Store, ast.Del)) and "tag_namespace['cycles']" in text(n.value):
                    return f"{f.qual} writes tag_namespace['cycles'] outside RenderContext.cycle"
    return None


def _cond_counters_small(repo: Repo) -> str | None:
    """``RenderContext.counters`` starts empty and is written only by increment/decrement, which
    store ``get(name, 0) +/- 1``: a counter's magnitude is bounded by the number of executed
    increment/decrement tags, far below the int/str conversion limit."""
    ctx = "liquid.context.RenderContext"
    for f in repo.all_functions():
        for n in ast.walk(f.node):
            tgt = None
            if isinstance(n, ast.Assign):
                tgt = n.targets
            elif isinstance(n, (ast.AugAssign, ast.AnnAssign)):
                tgt = [n.target]
            for t in tgt or []:
                if isinstance(t, ast.Subscript) and text(t.value).endswith(".counters"):
                    if f.qual not in (f"{ctx}.increment", f"{ctx}.decrement"):
                        return f"{f.qual} writes a counter outside increment/decrement"
                    v = text(n.value)
                    ok = v in ("val + 1", "val") and any(
                        isinstance(a, (ast.Assign, ast.AnnAssign)) and is_name(a.targets[0] if isinstance(a, ast.Assign) else a.target, "val") and text(a.value) in ("self.counters.get(name, 0)", "self.counters.get(name, 0) - 1")
                        for a in walk_no_nested(f.node)
                    )
                    if not ok:
                        return f"{f.qual} stores `{v}` in a counter (not get(name, 0) +/- 1)"
                if isinstance(t, ast.Attribute) and t.attr == "counters" and not (f.qual == f"{ctx}.__init__" and isinstance(n.value, ast.Dict) and not n.value.keys):
                    if f.qual.startswith(ctx) or text(t.value) in ("ctx", "context"):
                        return f"{f.qual} rebinds the counters namespace to `{text(n.value)[:40]}`"
    return None


def _cond_macros_namespace(repo: Repo) -> str | None:
    """``tag_namespace['macros']`` is only ever written by MacroNode with a Macro instance."""
    for f in repo.all_functions():
        if not f.module.name.startswith("liquid"):
            continue
        for n in ast.walk(f.node):
            if isinstance(n, ast.Assign):
                for t in n.targets:
                    if isinstance(t, ast.Subscript) and "tag_namespace['macros']" in text(t.value):
                        if not (isinstance(n.value, ast.Call) and callee_name(n.value) == "Macro"):
                            return f"{f.qual} stores `{text(n.value)[:40]}` in tag_namespace['macros']"
    return None


def _cond_build_block_stacks_callers(repo: Repo) -> str | None:
    for f in repo.all_functions():
        for c in calls(f.node):
            if callee_name(c) in ("_build_block_stacks", "_build_block_stacks_async") and not f.qual.startswith("liquid.extra.tags.extends_tag.ExtendsNode."):
                return f"{f.qual} calls {callee_name(c)}"
    return None


def _cond_translate_message(repo: Repo) -> str | None:
    """the translate tag doubles every literal % of the message and emits only %(name)s
    placeholders; _format_message builds a value for every placeholder re_vars finds."""
    mod = repo.module("liquid.extra.tags.translate_tag")
    src_parse = None
    for f in repo.all_functions():
        if f.module is mod and f.name in ("parse_translation_block", "_parse_message_block", "parse_message_block", "_parse_block"):
            src_parse = f
    doubled = any(
        isinstance(n, ast.Call) and callee_name(n) == "replace" and len(n.args) == 2 and all(isinstance(a, ast.Constant) for a in n.args) and (n.args[0].value, n.args[1].value) == ("%", "%%")
        for f in repo.all_functions()
        if f.module is mod
        for n in ast.walk(f.node)
    )
    if not doubled:
        return "no `.replace('%', '%%')` of literal message text found in the translate tag"
    node = repo.cls("liquid.extra.tags.translate_tag.TranslateNode")
    rv = node.attrs.get("re_vars")
    pat = rv.args[0].value if isinstance(rv, ast.Call) and rv.args and isinstance(rv.args[0], ast.Constant) else None
    if pat is None or "(?:%%)*" not in pat:
        return f"TranslateNode.re_vars `{pat}` does not recognise a placeholder after escaped percent signs"
    fm = repo.own_method("liquid.extra.tags.translate_tag.TranslateNode", "_format_message")
    if "self.re_vars.findall(message_text)" not in text(fm.node):
        return "_format_message no longer builds its variables from re_vars.findall(message_text)"
    return None


def _first_is_str(repo: Repo, f, pathv: str, cs, depth: int = 0) -> str | None:
    """None when, at a statement of ``f`` reached under the conditions ``cs``, the first element of
    the list named ``pathv`` is known to be a str: ``f`` itself bound ``root = next(iter(pathv))``
    and ``isinstance(root, str)`` holds on the way, or ``pathv`` is a parameter of a private helper
    and the same is true at every call site of the helper for the argument bound to it."""
    from ..astutil import bind_args
    from ..guards import canon, conditions

    its = {s2.targets[0].id for s2 in ast.walk(f.node) if isinstance(s2, ast.Assign) and len(s2.targets) == 1 and isinstance(s2.targets[0], ast.Name) and isinstance(s2.value, ast.Call) and is_name(s2.value.func, "iter") and s2.value.args and is_name(s2.value.args[0], pathv)}
    roots = [s2.targets[0].id for s2 in ast.walk(f.node) if isinstance(s2, ast.Assign) and len(s2.targets) == 1 and isinstance(s2.targets[0], ast.Name) and isinstance(s2.value, ast.Call) and is_name(s2.value.func, "next") and s2.value.args and isinstance(s2.value.args[0], ast.Name) and s2.value.args[0].id in its]
    if roots:
        want = {canon(ast.parse(f"isinstance({r}, str)", mode="eval").body) for r in roots}
        if {canon(k) for k in cs} & want:
            return None
        return f"{f.qual}: _segments_str is reachable without `isinstance(root, str)` having held"
    if pathv in f.params() and depth < 3 and f.name.startswith("_"):
        callers = 0
        for g in repo.all_functions():
            if g.module.name != f.module.name:
                continue
            for st, cs2 in conditions(g.node):
                if isinstance(st, (ast.If, ast.For, ast.AsyncFor, ast.While, ast.With, ast.AsyncWith, ast.Try)):
                    continue
                for c in ast.walk(st):
                    if isinstance(c, ast.Call) and callee_name(c) == f.name and (is_name(c.func, f.name) or (isinstance(c.func, ast.Attribute) and is_name(c.func.value, "self"))):
                        bound = bind_args(c, f.node, skip_self=isinstance(c.func, ast.Attribute)) or {}
                        # a call site that passes a non-None value for a parameter the helper's
                        # `_segments_str` call is conditional on being None never gets there
                        need_none = {canon(k)[: -len(" is None")] for k in cs if canon(k).endswith(" is None")}
                        if any(isinstance(bound.get(p_), ast.JoinedStr) or (isinstance(bound.get(p_), ast.Constant) and bound[p_].value is not None) for p_ in need_none):
                            continue
                        callers += 1
                        a = bound.get(pathv)
                        if not isinstance(a, ast.Name):
                            return f"{g.qual}: `{text(c)[:60]}` does not hand a named path to {f.name}"
                        why = _first_is_str(repo, g, a.id, cs2, depth + 1)
                        if why:
                            return why
        if callers:
            return None
    return f"{f.qual}: `root = next(iter({pathv}))` not found"


def _cond_segments_root_is_str(repo: Repo) -> str | None:
    """``_segments_str`` is only called (within liquid.context) with a slice that starts at the
    first element of a path whose first element (``root``) has passed the ``isinstance(root, str)``
    test — directly in ``RenderContext.get`` / ``get_async`` or in a private helper they call with
    that path — so the first thing it stringifies is a string."""
    from ..guards import conditions

    sites = 0
    for f in repo.all_functions():
        if f.module.name != "liquid.context":
            continue
        for st, cs in conditions(f.node):
            if isinstance(st, (ast.If, ast.For, ast.AsyncFor, ast.While, ast.With, ast.AsyncWith, ast.Try)):
                continue
            for c in ast.walk(st):
                if isinstance(c, ast.Call) and isinstance(c.func, ast.Name) and c.func.id == "_segments_str":
                    sites += 1
                    a = c.args[0] if c.args else None
                    if not (isinstance(a, ast.Subscript) and isinstance(a.slice, ast.Slice) and a.slice.lower is None and isinstance(a.value, ast.Name)):
                        return f"{f.qual}: _segments_str({text(a) if a is not None else ''}) is not a slice of the path from its first element"
                    why = _first_is_str(repo, f, a.value.id, cs)
                    if why:
                        return why
    return None if sites else "_segments_str is no longer called"


def mapping_first_unguarded(repo: Repo) -> list[tuple]:
    """(function, line, why) for every ``next(<iterator over the looked-up object>)`` in the two item
    getters that is reachable while the object may be empty: the path conditions must contain the
    object's truthiness (``isinstance(obj, Mapping) and obj``) or a positive ``len``.  An empty
    mapping has no first pair: ``next`` raises StopIteration, which no caller converts into the
    undefined value (shared with C16: a missing path never raises under the default type)."""
    from ..guards import canon, conditions

    from ..astutil import bind_args

    out = []
    n = 0
    cls = repo.cls("liquid.context.RenderContext")
    for m in ("get_item", "get_item_async"):
        g = repo.own_method("liquid.context.RenderContext", m)
        gobj = [p_ for p_ in g.params() if p_ != "self"][0]
        # the getter and the private methods it hands the object to
        todo = [(g, gobj)]
        for c in ast.walk(g.node):
            if isinstance(c, ast.Call) and isinstance(c.func, ast.Attribute) and is_name(c.func.value, "self") and c.func.attr in cls.methods and c.func.attr.startswith("_"):
                h = cls.methods[c.func.attr]
                b = bind_args(c, h.node) or {}
                for pn, a in b.items():
                    if is_name(a, gobj):
                        todo.append((h, pn))
        found = 0
        for f, obj in todo:
            ok_texts = {obj, f"len({obj}) > 0", f"len({obj}) != 0", f"len({obj}) >= 1"}
            for st, cs in conditions(f.node):
                if isinstance(st, (ast.If, ast.For, ast.AsyncFor, ast.While, ast.With, ast.AsyncWith, ast.Try)):
                    continue
                for c in ast.walk(st):
                    if isinstance(c, ast.Call) and is_name(c.func, "next") and len(c.args) == 1 and any(is_name(x, obj) for x in ast.walk(c.args[0])):
                        found += 1
                        if not ({canon(k) for k in cs} & ok_texts):
                            out.append((f, c.lineno, f"`{text(c)[:60]}` is reachable with an empty {obj} (path conditions: {sorted(canon(k) for k in cs)})"))
        n += 1 if found else 0
    if n < 2:
        raise AnchorMissing(f"`next(<iterator over obj>)` (first pair of a mapping) found for {n} of the 2 item getters")
    return out


def _cond_path_nonempty(repo: Repo) -> str | None:
    """Every ``Path(token, segments)`` built in the repository receives a non-empty segment list: a
    list literal with elements, or a local that the path conditions at the construction know to be
    truthy (``if not segments: raise`` before it).  ``Path.evaluate*`` hand ``context.get*`` a list of
    the same length, so ``next(iter(path))`` there cannot raise StopIteration."""
    from ..guards import canon, conditions

    n = 0
    for f in repo.all_functions():
        cls = repo.resolve_in(f.module, "Path")
        if getattr(cls, "qual", None) != "liquid.builtin.expressions.path.Path":
            continue
        for st, cs in conditions(f.node):
            if isinstance(st, (ast.If, ast.For, ast.AsyncFor, ast.While, ast.With, ast.AsyncWith, ast.Try)):
                continue
            for c in ast.walk(st):
                if isinstance(c, ast.Call) and is_name(c.func, "Path") and len(c.args) + len(c.keywords) >= 2:
                    n += 1
                    seg = c.args[1] if len(c.args) > 1 else next((k.value for k in c.keywords if k.arg == "path"), None)
                    if isinstance(seg, (ast.List, ast.Tuple)) and seg.elts:
                        continue
                    have = {canon(k) for k in cs}
                    if isinstance(seg, ast.Name) and ({seg.id, f"len({seg.id}) > 0", f"len({seg.id}) != 0", f"len({seg.id}) >= 1"} & have):
                        continue
                    return f"{f.qual}: `{text(c)[:50]}` can build a Path without segments (path conditions: {sorted(have)}); context.get would raise StopIteration for it"
    for m in ("evaluate", "evaluate_async"):
        f = repo.own_method("liquid.builtin.expressions.path.Path", m)
        calls_ = [c for c in ast.walk(f.node) if isinstance(c, ast.Call) and callee_name(c) in ("get", "get_async")]
        if not calls_ or not all(c.args and isinstance(c.args[0], ast.ListComp) and len(c.args[0].generators) == 1 and text(c.args[0].generators[0].iter) == "self.path" and not c.args[0].generators[0].ifs for c in calls_):
            return f"{f.qual}: context.get is no longer handed one item per segment of self.path"
    return None if n else "no Path(token, segments) construction found"


def _cond_mapping_first_nonempty(repo: Repo) -> str | None:
    bad = mapping_first_unguarded(repo)
    return f"{bad[0][0].qual}: {bad[0][2]}" if bad else None


# site key (function|primitive:argument|exception) -> (reason, side condition or None)
REVIEWED = {
    "liquid.context._segments_str|str(int):next(it)|ValueError": ("the first segment handed to _segments_str is the path's root after it passed isinstance(root, str): str() of a str", _cond_segments_root_is_str),
    "liquid.extra.tags.translate_tag.TranslateNode._format_message|str % x:message_text|ValueError": ("the message id is built by the tag itself: literal % doubled, only %(name)s placeholders; (catalogue translations are trusted to keep them)", _cond_translate_message),
    "liquid.extra.tags.translate_tag.TranslateNode._format_message|str % x:message_text|TypeError": ("as above; the right operand is a dict and every placeholder is named", _cond_translate_message),
    "liquid.extra.tags.translate_tag.TranslateNode._format_message|str % x:message_text|KeyError": ("_vars has a key for every placeholder re_vars finds, and re_vars finds every placeholder the tag can emit (also after escaped percent signs)", _cond_translate_message),
    "liquid.builtin.expressions.loop.LoopExpression._slice|int():offset or 0|OverflowError": ("offset is None, the literal 'continue' (handled by the branch above) or an int produced by _to_int — never a float", _cond_slice_offset),
    "liquid.builtin.expressions.loop.LoopExpression._slice|int():offset or 0|TypeError": ("as above: never a list/dict/None after `or 0`", _cond_slice_offset),
    "liquid.builtin.expressions.loop.LoopExpression._slice|int():offset or 0|ValueError": ("as above: the only str that reaches _slice is 'continue', which takes the other branch", _cond_slice_offset),
    "liquid.builtin.expressions.loop.LoopExpression._slice|islice():start_,stop_|ValueError": ("both bounds are clamped into [0, length] and length is a len()/0/1 from _to_iter (C13-BOUNDS decides the clamp)", _cond_slice_clamped),
    "liquid.builtin.filters.array.uniq|attr .index:sequence|AttributeError": ("sequence_filter hands over a list, a range (has .index) or an Undefined, which iterates as empty so the comprehension condition is never evaluated", None),
    "liquid.builtin.filters.array.uniq|x.index():sequence|ValueError": ("obj is an element enumerated from the same sequence; list.index compares identity first, so it is always found (also NaN)", None),
    "liquid.builtin.filters.string.split|str.split(sep):None if sep == ' ' else sep|ValueError": ("an empty or nil separator returned `list(val)` above; soft_str of anything else is non-empty", None),
    "liquid.builtin.tags.case_tag.MultiExpressionBlockNode.render_to_output|attr .count:matches|AttributeError": ("self.expression is the _AnyExpression built by the case tag; its evaluate returns list[bool]", None),
    "liquid.builtin.tags.case_tag.MultiExpressionBlockNode.render_to_output_async|attr .count:matches|AttributeError": ("as the sync twin", None),
    "liquid.builtin.tags.cycle_tag.CycleNode.render_to_output|x[k<len]:args[index]|IndexError": ("the upper bound is machine-checked (primitive `x[k<len]`: a dominating `if index >= len(args): return`); lower bound: context.cycle returns a stored value that starts at 0 and is only replaced by `(idx + 1) % (length or 1)`, never negative", _cond_cycle_nonneg),
    "liquid.builtin.tags.cycle_tag.CycleNode.render_to_output_async|x[k<len]:args[index]|IndexError": ("as the sync twin", _cond_cycle_nonneg),
    "liquid.builtin.tags.increment_tag.IncrementNode.render_to_output|str(int):context.increment(self.name)|ValueError": ("a counter starts at 0 and moves by one per executed tag: its magnitude is bounded by the number of tag executions, never near the 4300-digit limit", _cond_counters_small),
    "liquid.builtin.tags.decrement_tag.DecrementNode.render_to_output|str(int):context.decrement(self.name)|ValueError": ("as increment", _cond_counters_small),
    "liquid.context.RenderContext.get|next():it|StopIteration": ("a parsed Path always has at least one segment", _cond_path_nonempty),
    "liquid.context.RenderContext.get_async|next():it|StopIteration": ("a parsed Path always has at least one segment", _cond_path_nonempty),
    "liquid.context._segments_str|next():it|StopIteration": ("called with the non-empty segment list of a Path", None),
    "liquid.context.RenderContext.get_item|next():itertools.islice(obj.items(), 1)|StopIteration": ("guarded by `isinstance(obj, Mapping) and obj` — a non-empty mapping", _cond_mapping_first_nonempty),
    "liquid.context.RenderContext.get_item_async|next():itertools.islice(obj.items(), 1)|StopIteration": ("as the sync twin", _cond_mapping_first_nonempty),
    "liquid.extra.filters._json.JSON.__call__|json.dumps():obj|ValueError": ("ValueError means a circular reference: JSON-like render data are acyclic (NaN/inf are allowed by default)", None),
    "liquid.extra.filters.babel.Unit.__call__|assert:isinstance(_length, str)|AssertionError": ("_length is one of the three literal strings or self.default_length (validated str in __init__)", None),
    "liquid.extra.tags.extends_tag._build_block_stacks|assert:base|AssertionError": ("only called from ExtendsNode, i.e. for a template that has an extends tag, so the first _stack_template_blocks call returns its parent", _cond_build_block_stacks_callers),
    "liquid.extra.tags.extends_tag._build_block_stacks_async|assert:base|AssertionError": ("as the sync twin", _cond_build_block_stacks_callers),
    "liquid.extra.tags.macro_tag.CallNode.macro_args|assert:expr is not None|AssertionError": ("zip_longest(fillvalue=None) over two lists without None elements: when name is None, expr is not", None),
    "liquid.extra.tags.macro_tag.CallNode.render_to_output_async|assert:isinstance(macro, Macro)|AssertionError": ("tag_namespace['macros'] holds only Macro objects stored by MacroNode; the undefined case returned above", _cond_macros_namespace),
    "liquid.extra.tags.macro_tag.CallNode.render_to_output|assert:isinstance(macro, Macro)|AssertionError": ("as the async twin", _cond_macros_namespace),
    "liquid.limits.to_int|int():val|ValueError@liquid.extra.filters.array.sort_numeric": ("the argument is a match of RE_NUMERIC (-?\\d+): int() accepts every such string below the length limit checked just above", None),
    "liquid.limits.to_int|raise:ValueError|ValueError@liquid.extra.filters.array.sort_numeric": ("the re-raise converts OverflowError, which int() raises for floats only; the argument here is a str", None),
    "liquid.stringify.to_liquid_string|assert:isinstance(val, str)|AssertionError": ("every branch above binds val to a str (escape() returns Markup); the assert restates it", None),
}


_KEEP_NAMES = {"self", "cls", "isinstance", "str", "len", "int", "float", "itertools", "None", "True", "False"}


def _loose_arg(arg: str) -> str:
    """the argument text of a site with local variable names blanked: a local rename (`start_` ->
    `first`) does not turn a reviewed site into a new one"""
    try:
        tree = ast.parse(f"({arg})", mode="eval")
    except SyntaxError:
        return arg
    for n in ast.walk(tree):
        if isinstance(n, ast.Name) and n.id not in _KEEP_NAMES:
            n.id = "_"
    return text(tree.body)


def _loose_key(func: str, prim: str, arg: str, exc: str) -> str:
    """reviewed rows also match the same primitive/argument/exception anywhere in the same class
    (or module, for module-level functions): extracting the statement into a private helper of
    that class does not turn a reviewed site into a new one"""
    owner = func.rsplit(".", 1)[0]
    return f"{owner}|{prim}:{_loose_arg(arg)}|{exc}"


def _is_construct_factory(x: Exc):
    impls = {fi.func.qual for fi, _ in x.filter_entries}

    def is_construct(f) -> bool:
        return f.qual in impls or f.name in ("render_to_output", "render_to_output_async", "evaluate", "evaluate_async", "__call__", "filter_async")

    return is_construct


def run(repo: Repo) -> Result:
    res = Result(PID)
    res.rules = ["C02-ESCAPE", "C02-PARSE", "C02-FUNNEL", "C02-RECURSION"]
    res.explanation = (
        "exception-escape analysis: per (function, parameter-kind context) the non-Liquid exception classes that may leave it — "
        "closed primitive table x kind inference, minus enclosing handlers (hierarchy aware), propagated over the resolved call graph "
        "incl. the filter registry through its decorator wrappers — must be empty at BoundTemplate.render / render_async and "
        "Environment.from_string, up to hand-reviewed rows with machine-checked side conditions"
    )
    res.assumptions = [
        "render data are JSON-like values, range, Undefined and Markup (no user drops / custom filters)",
        "f-string interpolation with a conversion or format spec (f'{x!r}', f'{x:>5}') is not armed for the int/str conversion limit (plain f'{x}' and str(x) are)",
        "AttributeError/TypeError on values of unknown kind (possibly repo objects) are not armed",
        "third-party internals beyond the trusted rows (dateutil, babel, pytz) are not decided",
    ]
    H = hnd.Hier(repo)

    # ---- C02-FUNNEL ------------------------------------------------------------------------
    def typeerror_funnel(fn_node, call_pred, owner: str, what: str):
        hits = [c for c in ast.walk(fn_node) if isinstance(c, ast.Call) and call_pred(c)]
        res.ob(f"funnel:{owner}")
        if not hits:
            res.add("C02-FUNNEL", owner, "no-call", f"{owner}: the {what} call was not found", "", 0)
            return
        for c in hits:
            ok = False
            for tr, hs in hnd.enclosing_try_handlers(fn_node, c):
                for h in hs:
                    if H.catches(handler_types(h), "TypeError"):
                        kinds, raised = hnd.classify(h)
                        ok = "convert" in kinds and all(H.is_liquid_error(r.split(".")[-1]) for r in raised) and "swallow" not in kinds
                        break
                if ok:
                    break
            if not ok:
                res.add("C02-FUNNEL", owner, "typeerror-not-converted", f"{owner}: the {what} call `{text(c)[:50]}` is not inside `try/except TypeError` that raises a Liquid error — a TypeError from any filter body would reach the caller of render", "", getattr(c, "lineno", 0))

    n_wrappers = 0
    for dn in ("string_filter", "array_filter", "sequence_filter", "liquid_filter", "math_filter"):
        d = repo.func(f"liquid.filter.{dn}")
        hole = d.params()[0]
        typeerror_funnel(d.node, lambda c, hole=hole: is_name(c.func, hole), d.qual, "decorated filter")
        n_wrappers += 1
    uf = repo.func("liquid.extra.filters.babel.unit_filter")
    typeerror_funnel(uf.node, lambda c: is_name(c.func, uf.params()[0]), uf.qual, "decorated filter")
    for m in ("evaluate", "evaluate_async"):
        f = repo.own_method("liquid.builtin.expressions.filtered.Filter", m)
        typeerror_funnel(f.node, lambda c: is_name(c.func, "func") or (isinstance(c.func, ast.Attribute) and c.func.attr == "filter_async"), f.qual, "dynamic filter")

    # ---- C02-PARSE -------------------------------------------------------------------------
    fs = repo.own_method("liquid.environment.Environment", "from_string")
    res.ob(fs.qual, 3)
    pcalls = [c for c in calls(fs.node) if callee_name(c) == "_parse"]
    if len(pcalls) != 1:
        raise AnchorMissing("Environment.from_string no longer calls self._parse exactly once")
    enc = hnd.enclosing_try_handlers(fs.node, pcalls[0])
    ok = False
    if enc:
        _tr, hs = enc[0]
        catch_all = [h for h in hs if not handler_types(h) or "Exception" in handler_types(h) or "BaseException" in handler_types(h)]
        if catch_all:
            kinds, raised = hnd.classify(catch_all[0])
            ok = "convert" in kinds and all(H.is_liquid_error(r.split(".")[-1]) for r in raised) and "swallow" not in kinds
        for h in hs:
            if h in catch_all:
                continue
            kinds, raised = hnd.classify(h)
            if not all(H.is_liquid_error(t.split(".")[-1]) for t in handler_types(h)):
                res.add("C02-PARSE", fs.qual, f"handler:{','.join(handler_types(h))}", "from_string handles a non-Liquid class before the catch-all without converting it", fs.file, h.lineno)
    if not ok:
        res.add("C02-PARSE", fs.qual, "catch-all", "from_string must wrap self._parse(source) in try/except Exception that raises LiquidError: any unexpected parser exception would reach the caller", fs.file, fs.line)
    from ..normalize import nfunc

    ld = nfunc(repo, repo.own_method("liquid.loader.BaseLoader", "load"))  # private helpers inlined
    res.ob(ld.qual)
    if not any(callee_name(c) == "from_string" for c in calls(ld.node)):
        res.add("C02-PARSE", ld.qual, "via-from_string", "BaseLoader.load must parse through env.from_string (the conversion funnel)", ld.file, ld.line)

    # ---- C02-RECURSION ---------------------------------------------------------------------
    # RecursionError is one of the classes the statement names.  At parse time from_string's
    # catch-all converts it (C02-PARSE); at render time nothing does, so it must not be raised:
    # the render-side depth rules of C09 (the two ContextDepthError guards, `copy_depth + 1` on
    # every context copy builds, every run-time-found block rendered under a guard, the frame
    # budget) are obligations of this property as well.  Same rule code, re-keyed.
    from . import c09 as _c09

    r9 = _c09.run(repo)
    n9 = 0
    for f9 in r9.findings:
        render_side = (
            (f9.rule == "C09-GUARDS" and f9.construct.startswith("liquid.context.RenderContext"))
            or (f9.rule == "C09-CYCLES" and f9.detail.startswith(("unguarded-dynamic-render", "extend")))
            or (f9.rule == "C09-CYCLES" and f9.detail.startswith("unguarded:") and not any(_c09._is_parse_time(g) for g in repo.all_functions() if g.qual == f9.construct))
            or f9.rule == "C09-BUDGET"
        )
        if render_side:
            n9 += 1
            res.add("C02-RECURSION", f9.construct, f"{f9.rule}:{f9.detail}", f"RecursionError can reach the caller of render: {f9.message}", f9.file, f9.line)
    res.ob("recursion:render-depth-rules", max(int(r9.stats.get("dynamic_render_calls", 0)) + 8, 1))
    res.stats["render_depth_findings"] = n9

    # ---- C02-ESCAPE ------------------------------------------------------------------------
    x = Exc(repo)
    roots = [
        (repo.own_method("liquid.template.BoundTemplate", "render"), {}),
        (repo.own_method("liquid.template.BoundTemplate", "render_async"), {}),
        (fs, {}),
    ]
    x.run(roots)
    is_construct = _is_construct_factory(x)
    res.ob("exc:summaries", len(x.summaries))
    res.ob("exc:filters", len(x.filter_entries))
    if len(x.summaries) < 400 or len(x.filter_entries) < 70:
        raise AnchorMissing(f"EXC reached only {len(x.summaries)} (function, context) summaries / {len(x.filter_entries)} filters: the call graph from render is broken")
    reached_filters = {k[0] for k in x.summaries}
    for fi, _ in x.filter_entries:
        if fi.func.qual not in reached_filters:
            res.add("C02-ESCAPE", fi.func.qual, "not-reached", f"filter {fi.name} ({fi.func.qual}) was not reached from BoundTemplate.render: the analysis would say nothing about it", fi.func.file, fi.func.line)
    used_reviewed = set()
    loose_rows: dict[str, list] = {}
    for k in REVIEWED:
        base = k.split("@")[0]
        fq_, rest = base.split("|", 1)
        prim_arg, exc_ = rest.rsplit("|", 1)
        prim_, arg_ = prim_arg.split(":", 1)
        loose_rows.setdefault(_loose_key(fq_, prim_, arg_, exc_), []).append(k)
    cond_cache: dict = {}
    n_pairs = 0
    for rk in x.root_keys:
        for site in x.summaries[rk].escapes:
            if H.is_liquid_error(site.exc) or H.is_sub(site.exc, "LiquidInterrupt") or H.is_sub(site.exc, "StopRender"):
                continue
            for construct, path in x.constructs(rk, site, is_construct).items():
                n_pairs += 1
                row = REVIEWED.get(f"{site.key}@{construct}") or REVIEWED.get(site.key)
                rowkey = f"{site.key}@{construct}" if f"{site.key}@{construct}" in REVIEWED else site.key
                if row is None:
                    lk = _loose_key(site.func, site.prim, site.arg, site.exc)
                    cands = [k for k in loose_rows.get(lk, []) if "@" not in k or k.endswith("@" + construct)]
                    if len(cands) >= 1:
                        rowkey = cands[0]
                        row = REVIEWED[rowkey]
                if row is not None:
                    reason, cond = row
                    used_reviewed.add(rowkey)
                    if cond is not None:
                        if cond not in cond_cache:
                            cond_cache[cond] = cond(repo)
                        broken = cond_cache[cond]
                        if broken:
                            res.add("C02-ESCAPE", construct, f"{site.prim}:{_loose_arg(site.arg)}:{site.exc}:condition", f"{site.exc} may escape {rk[0].split('.')[-1]} from `{site.prim} {site.arg}` in {site.func}: the reviewed row's side condition no longer holds — {broken}", site.file, site.line)
                    continue
                chain = " > ".join(q.replace("liquid.", "") for q in path[-6:])
                res.add(
                    "C02-ESCAPE",
                    construct,
                    # keyed by construct + primitive + argument shape + exception: the helper the
                    # site sits in and the names of its locals are not part of the identity
                    f"{site.prim}:{_loose_arg(site.arg)}:{site.exc}",
                    f"{site.exc} may escape {rk[0].split('.')[-1]}: `{site.prim}` on `{site.arg}`"
                    + (f" (kinds {site.kinds})" if site.kinds else "")
                    + f" in {site.func} is not covered by any handler on the path … > {chain} > {site.func.replace('liquid.', '')}",
                    site.file,
                    site.line,
                )
    for k in REVIEWED:
        res.ob(f"reviewed:{k[:80]}")
    stale = sorted(set(REVIEWED) - used_reviewed)
    res.stats.update(
        {
            "summaries": len(x.summaries),
            "worklist_rounds": x.rounds,
            "primitive_hits": dict(sorted(x.prim_counts.items())),
            "call_edges_followed": x.n_calls,
            "unresolved_calls": x.n_unresolved,
            "escaping_pairs_at_boundaries": n_pairs,
            "reviewed_rows_used": len(used_reviewed),
            "reviewed_rows_stale": stale,
        }
    )
    for k in list(x.prim_counts)[:12]:
        res.sample({"rule": "C02-ESCAPE", "primitive": k, "sites_evaluated": x.prim_counts[k]})
    return res


def selftest(repo: Repo):
    from ..selftest import Variant, text_edit

    def v(name, rel, old, new, expect, count=1):
        return lambda: Variant(name, text_edit(repo, rel, old, new, count), expect)

    FL = "liquid/filter.py"
    return [
        v("tablerow-cols-typeerror", "liquid/builtin/tags/tablerow_tag.py", "            return to_int(arg)\n        except (ValueError, TypeError):", "            return to_int(arg)\n        except ValueError:", "C02-ESCAPE"),
        v("range-bound-typeerror", "liquid/builtin/expressions/primitive.py", "            stop = to_int(stop)\n        except (ValueError, TypeError):", "            stop = to_int(stop)\n        except ValueError:", "C02-ESCAPE"),
        v("math-filter-arithmetic", FL, "        except (ArithmeticError, ValueError) as err:\n", "        except ZeroDivisionError as err:\n", "C02-ESCAPE"),
        v("to-int-infinity", "liquid/limits.py", "    try:\n        return int(val)\n    except OverflowError as err:\n        # float infinity: not an integer, just like NaN (which is a ValueError)\n        raise ValueError(str(err)) from err\n", "    return int(val)\n", "C02-ESCAPE"),
        v("date-digits-unguarded", "liquid/builtin/filters/misc.py", "            try:\n                dat = datetime.datetime.fromtimestamp(int(dat))\n            except (OverflowError, OSError, ValueError):\n                # Out of range for a timestamp, or digits `int` does not accept.\n                return str(dat)\n", "            dat = datetime.datetime.fromtimestamp(int(dat))\n", "C02-ESCAPE"),
        v("compact-missing-key", "liquid/builtin/filters/array.py", "            except (KeyError, IndexError):\n                return False\n", "            except IndexError:\n                return False\n", "C02-ESCAPE"),
        v("contains-unhashable", "liquid/builtin/expressions/logical.py", "        try:\n            return right in left\n        except TypeError:\n            # An unhashable value is never a key of a mapping or a member of a set.\n            return False\n", "        return right in left\n", "C02-ESCAPE"),
        v("translate-count-infinity", "liquid/extra/filters/translate.py", "    except (ValueError, OverflowError):\n        return None\n", "    except ValueError:\n        return None\n", "C02-ESCAPE"),
        v("new-modulo-in-tag", "liquid/builtin/tags/cycle_tag.py", "        index = context.cycle(key, len(args))\n", "        index = context.cycle(key, len(args))\n        index = index % len(args)\n", "C02-ESCAPE", count=2),
        v("offset-validation-dropped-in-both-twins", "liquid/builtin/expressions/loop.py", "            if offset != \"continue\":\n                offset = self._to_int(offset, token=self.offset.token)\n", "", "C02-ESCAPE", count=2),
        v("filter-evaluate-no-typeerror", "liquid/builtin/expressions/filtered.py", "        except TypeError as err:\n            raise LiquidTypeError(f\"{self.name}: {err}\", token=self.token) from err\n", "", "C02-FUNNEL", count=2),
        v("filter-evaluate-no-valueerror", "liquid/builtin/expressions/filtered.py", "        except ValueError as err:\n            # For example, an integer beyond the int/str conversion limit.\n            raise FilterValueError(f\"{self.name}: {err}\", token=self.token) from err\n", "", "C02-ESCAPE", count=2),
        v("sum-arithmetic-unguarded", "liquid/builtin/filters/array.py", "    except ArithmeticError as err:\n        # Infinity minus infinity, or a decimal exponent out of range.\n        raise FilterArgumentError(f\"sum: {err}\", token=None) from err\n", "    except KeyError as err:\n        raise FilterArgumentError(f\"sum: {err}\", token=None) from err\n", "C02-ESCAPE"),
        v("to-str-bare", "liquid/limits.py", "    try:\n        return str(val)\n    except ValueError as err:\n        raise LiquidValueError(str(err), token=None) from err\n", "    return str(val)\n", "C02-ESCAPE"),
        v("new-ceil-in-string-filter", "liquid/builtin/filters/string.py", "def strip(val: str) -> str:\n    \"\"\"Return a copy of _val_ with leading and trailing whitespace removed.\"\"\"\n", "def strip(val: str) -> str:\n    \"\"\"Return a copy of _val_ with leading and trailing whitespace removed.\"\"\"\n    if val and math.ceil(float(len(val)) / 0.0) == 0:\n        return \"\"\n", "C02-ESCAPE"),
        v("liquid-filter-no-conversion", FL, "    def wrapper(val: object, *args: Any, **kwargs: Any) -> Any:\n        try:\n            return _filter(val, *args, **kwargs)\n        except TypeError as err:\n            raise FilterArgumentError(err, token=None) from err\n\n    return wrapper\n\n\ndef int_arg", "    def wrapper(val: object, *args: Any, **kwargs: Any) -> Any:\n        return _filter(val, *args, **kwargs)\n\n    return wrapper\n\n\ndef int_arg", "C02-FUNNEL"),
        v("from-string-narrow-catch", "liquid/environment.py", "        except Exception as err:  # noqa: BLE001\n            raise LiquidError(\"unexpected liquid parsing error\", token=None) from err", "        except ValueError as err:\n            raise LiquidError(\"unexpected liquid parsing error\", token=None) from err", "C02-PARSE"),
        v("translate-vars-regex-lookbehind", "liquid/extra/tags/translate_tag.py", 're_vars = re.compile(r"(?<!%)(?:%%)*%\\((\\w+)\\)s")', 're_vars = re.compile(r"(?<!%)%\\((\\w+)\\)s")', "C02-ESCAPE"),
        v("root-name-bare-str", "liquid/context.py", "                name = to_str(root)\n", "                name = str(root)\n", "C02-ESCAPE", count=2),
        v("segments-str-before-root-check", "liquid/context.py", "                name = to_str(root)\n                hint = f\"{name} is undefined\"\n", "                name = to_str(root)\n                hint = f\"{_segments_str(path[:1])} is undefined\"\n", "C02-ESCAPE", count=2),
        v("path-may-be-empty", "liquid/builtin/expressions/path.py", "        if not segments:\n            raise LiquidSyntaxError(\n                \"missing or unexpected path segment\",\n                token=tokens.current,\n            )\n\n", "", "C02-ESCAPE"),
        v("first-of-empty-mapping", "liquid/context.py", "                if isinstance(obj, Mapping) and obj:\n", "                if isinstance(obj, Mapping):\n", "C02-ESCAPE", count=2),
        v("babel-format-unguarded", "liquid/extra/filters/babel.py", "        except (ArithmeticError, ValueError, OSError) as err:\n            # Timestamps out of range for the platform, NaN.\n", "        except KeyError as err:\n            # Timestamps out of range for the platform, NaN.\n", "C02-ESCAPE"),
    ]
