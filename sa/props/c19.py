"""C19 — static analysis reports everything a render can touch (clause: what a node renders
⊆ what it reports to the analyser).

For every node class (subclasses of ``liquid.ast.Node``) and expression class:
  C19-EXPR    every expression-valued field the node evaluates while rendering
              (``self.f.evaluate*``, ``x.value.evaluate*`` for x over ``self.f``,
              ``context.resolve(self.f)``) is mentioned by its ``expressions()`` — otherwise the
              variable paths and filters inside it are never reported.
  C19-CHILD   every child node / block the node renders (``self.f.render*``, items of
              ``self.f``) is mentioned by its ``children()`` — otherwise the tags, variables and
              filters below it are never reported.
  C19-SCOPE   every name a node *claims* to bind for its body (``block_scope()``,
              ``template_scope()``, ``partial_scope().in_scope``) is really bound by its render
              method (namespace keys passed to extend/loop/copy, or ``context.assign`` /
              counters) — a claimed-but-unbound name would hide a genuine global.
  C19-SUBEXPR every sub-expression an ``Expression`` subclass evaluates is returned by its
              ``children()`` (the analyser walks ``children()`` to find paths and filters).
  C19-FILTERS every class with a ``filters``-typed slot is handled by ``_extract_filters``,
              slot by slot; filter names are reported from ``f.name``.
  C19-VISIT   ``_visit`` records the tag of every tag-token node, walks ``node.expressions()``,
              ``node.template_scope()``, ``node.partial_scope()`` / ``node.block_scope()`` and
              recurses into ``node.children(...)``.
Sync/async parity of the analyser is decided under C01.
  C19-BALANCE every scope frame ``_visit`` pushes is popped on every path before it returns (all
              paths, counting frames): a leaked frame hides later global reads of its names.
Not decided: the rest of the scope bookkeeping and the partial de-duplication (``seen``) inside ``_visit``
— value/history level (see DESIGN.md: a partial first visited inside a loop is not
re-visited outside it).
"""

from __future__ import annotations

import ast

from ..astutil import call_recv, attr_chain, callee_name, calls, is_name, is_self_attr, names_in, text, unwrap_await
from ..core import Result
from ..model import AnchorMissing, Repo, fold_str, walk_no_nested

PID = "C19"
MIN_OBLIGATIONS = 100
RENDER_METHODS = ("render_to_output", "render_to_output_async")
REVIEWED = {
    "C19-SUBEXPR|liquid.builtin.tags.case_tag._AnyExpression|left": "the case subject is reported by CaseNode.expressions(); _AnyExpression.children() lists only the when-alternatives so it is not reported twice",
}
# a reviewed row is valid only while the fact it relies on still holds: (class, method, field mentioned)
REVIEWED_REQUIRES = {
    "C19-SUBEXPR|liquid.builtin.tags.case_tag._AnyExpression|left": ("liquid.builtin.tags.case_tag.CaseNode", "expressions", "expression"),
}


def self_fields(node: ast.AST) -> set[str]:
    return {n.attr for n in ast.walk(node) if isinstance(n, ast.Attribute) and is_name(n.value, "self")}


def _recurses_over_children(fn_node) -> bool:
    """``for <x> in <first parameter>.children(): ... <this function>(<x>, ...)`` on every such loop"""
    p0 = fn_node.args.args[0].arg if fn_node.args.args else "expression"
    loops = [x for x in ast.walk(fn_node) if isinstance(x, (ast.For, ast.AsyncFor)) and isinstance(x.iter, ast.Call) and callee_name(x.iter) == "children" and text(call_recv(x.iter)) == p0 and isinstance(x.target, ast.Name)]
    if not loops:
        return False
    for lp in loops:
        if not any(isinstance(c, ast.Call) and is_name(c.func, fn_node.name) and c.args and is_name(c.args[0], lp.target.id) for c in ast.walk(lp)):
            return False
    return True


def conditional_report(fn_node, fld: str):
    """None when ``self.<fld>`` is handed to the analyser by this ``children()`` / ``expressions()``
    under no condition other than on the field itself; otherwise a description of what its
    being reported depends on (another field's value, a ``break`` out of a loop over several
    fields, ...)."""
    from ..guards import conditions

    def foreign(cond, own: set[str]) -> bool:
        """the conjunct mentions a self field other than the field, or a local other than `own`"""
        for n in ast.walk(cond):
            if isinstance(n, ast.Attribute) and is_name(n.value, "self") and n.attr != fld:
                return True
            if isinstance(n, ast.Name) and n.id not in own and n.id not in ("self", "isinstance", "None", "len", "bool", "list", "tuple", "str", "Expression", "Path", "Node", "BlockNode", "hasattr"):
                return True
        return False

    def mentions(e, name=None) -> bool:
        for n in ast.walk(e):
            if name is None and isinstance(n, ast.Attribute) and is_name(n.value, "self") and n.attr == fld:
                return True
            if name is not None and isinstance(n, ast.Name) and n.id == name:
                return True
        return False

    reasons = []
    conds = conditions(fn_node)
    # loops over a literal tuple/list of several values that includes the field
    loop_of: dict[int, tuple] = {}
    for n in walk_no_nested(fn_node):
        if isinstance(n, (ast.For, ast.AsyncFor)) and isinstance(n.iter, (ast.Tuple, ast.List)) and len(n.iter.elts) >= 2 and mentions(n.iter) and isinstance(n.target, ast.Name):
            early = [x for x in ast.walk(n) if isinstance(x, (ast.Break, ast.Return))]
            for x in ast.walk(n):
                loop_of[id(x)] = (n.target.id, bool(early))
    any_site = False
    for st, cs in conds:
        if isinstance(st, (ast.If, ast.For, ast.AsyncFor, ast.While, ast.With, ast.Try)):
            continue
        via = loop_of.get(id(st))
        if mentions(st):
            own: set[str] = set()
        elif via is not None and mentions(st, via[0]):
            own = {via[0]}
        else:
            continue
        # only statements that hand something on: return / yield / append / extend / list build
        hands_on = isinstance(st, ast.Return) or (isinstance(st, ast.Expr) and (isinstance(st.value, (ast.Yield, ast.YieldFrom)) or (isinstance(st.value, ast.Call) and callee_name(st.value) in ("append", "extend", "add", "insert")))) or isinstance(st, (ast.Assign, ast.AnnAssign, ast.AugAssign))
        if not hands_on:
            continue
        any_site = True
        bad = [text(c)[:40] for c in cs if foreign(c, own)]
        if via is not None and own and via[1]:
            bad.append(f"a `break`/`return` inside the loop over `{via[0]}`: an earlier element that is None stops the later ones from being reported")
        if not bad:
            return None
        reasons.append("; ".join(bad))
    if not any_site:
        return None  # not mentioned at all: reported by the membership rule
    return reasons[0] if reasons else None


def evaluated_fields(fn_node) -> dict[str, int]:
    """self.<f> whose value (or whose items) get .evaluate*() called, or is passed to
    context.resolve(...)."""
    out: dict[str, int] = {}
    # loop / comprehension variables bound from self.<f>[.items()/.values()]
    itervars: dict[str, str] = {}

    def base_field(e):
        e = unwrap_await(e)
        while isinstance(e, ast.Call) and isinstance(e.func, ast.Attribute) and e.func.attr in ("items", "values", "keys"):
            e = call_recv(e)
        ch = attr_chain(e)
        if ch and ch[0] == "self" and len(ch) >= 2:
            return ch[1]
        return None

    for n in ast.walk(fn_node):
        gens = []
        if isinstance(n, (ast.ListComp, ast.SetComp, ast.DictComp, ast.GeneratorExp)):
            gens = [(g.target, g.iter) for g in n.generators]
        elif isinstance(n, (ast.For, ast.AsyncFor)):
            gens = [(n.target, n.iter)]
        for tgt, it in gens:
            f = base_field(it)
            if f is None:
                # for k, v in local.items() where local = self.macro_args(...) etc: not a field
                continue
            for nm in names_in(tgt):
                itervars[nm] = f
    for c in ast.walk(fn_node):
        if not isinstance(c, ast.Call):
            continue
        nm = callee_name(c)
        if nm in ("evaluate", "evaluate_async") and isinstance(c.func, ast.Attribute):
            ch = attr_chain(call_recv(c))
            if not ch:
                continue
            if ch[0] == "self" and len(ch) >= 2:
                out[ch[1]] = c.lineno
            elif ch[0] in itervars:
                out[itervars[ch[0]]] = c.lineno
                VIA_ITEMS.add((id(fn_node), itervars[ch[0]]))
        elif nm in ("resolve", "get", "get_async") and isinstance(c.func, ast.Attribute) and is_name(call_recv(c), "context") and c.args:
            ch = attr_chain(c.args[0])
            if ch and ch[0] == "self" and len(ch) == 2:
                out[ch[1]] = c.lineno
    return out


# (id(function node), field) pairs whose evaluation happens on the *items* of the field
VIA_ITEMS: set = set()


def rendered_fields(fn_node) -> dict[str, int]:
    out: dict[str, int] = {}
    itervars: dict[str, str] = {}
    for n in ast.walk(fn_node):
        gens = []
        if isinstance(n, (ast.ListComp, ast.SetComp, ast.GeneratorExp)):
            gens = [(g.target, g.iter) for g in n.generators]
        elif isinstance(n, (ast.For, ast.AsyncFor)):
            gens = [(n.target, n.iter)]
        for tgt, it in gens:
            ch = attr_chain(unwrap_await(it))
            if ch and ch[0] == "self" and len(ch) == 2:
                for nm in names_in(tgt):
                    itervars[nm] = ch[1]
    for c in ast.walk(fn_node):
        if isinstance(c, ast.Call) and callee_name(c) in ("render", "render_async") and isinstance(c.func, ast.Attribute):
            ch = attr_chain(call_recv(c))
            if not ch:
                continue
            if ch[0] == "self" and len(ch) >= 2:
                out[ch[1]] = c.lineno
            elif ch[0] in itervars:
                out[itervars[ch[0]]] = c.lineno
    return out


def bound_names(repo, cls, fn_node):
    """(constant names, fields) bound by a render method: namespace keys + assign targets."""
    consts, fields = set(), set()
    mod = cls.module

    def key(e):
        s = fold_str(repo, mod, e, 0)
        if s is not None:
            consts.add(s)
            return
        for n in ast.walk(e):
            if isinstance(n, ast.Attribute) and is_name(n.value, "self"):
                fields.add(n.attr)
            if isinstance(n, ast.Name):
                fields.add("$" + n.id)

    for n in ast.walk(fn_node):
        if isinstance(n, ast.Dict):
            for k in n.keys:
                if k is not None:
                    key(k)
        elif isinstance(n, ast.DictComp):
            key(n.key)
            for g in n.generators:
                for x in ast.walk(g.iter):
                    if isinstance(x, ast.Attribute) and is_name(x.value, "self"):
                        fields.add(x.attr)
        elif isinstance(n, ast.Call) and is_name(n.func, "dict") and len(n.args) == 1 and isinstance(n.args[0], (ast.GeneratorExp, ast.ListComp)):
            # dict(<pair> for a in self.<field>): the namespace keys come from the items of the field
            for g in n.args[0].generators:
                for x in ast.walk(g.iter):
                    if isinstance(x, ast.Attribute) and is_name(x.value, "self"):
                        fields.add(x.attr)
        elif isinstance(n, ast.Assign) and isinstance(n.targets[0], ast.Subscript) and isinstance(n.targets[0].value, ast.Name):
            key(n.targets[0].slice)
        elif isinstance(n, ast.Call) and callee_name(n) in ("assign", "increment", "decrement") and n.args:
            key(n.args[0])
    # resolve $local names through simple assignments to self fields
    locs = {}
    for st in ast.walk(fn_node):
        if isinstance(st, ast.Assign) and len(st.targets) == 1 and isinstance(st.targets[0], ast.Name):
            locs[st.targets[0].id] = st.value
    for f in list(fields):
        if f.startswith("$") and f[1:] in locs:
            for x in ast.walk(locs[f[1:]]):
                if isinstance(x, ast.Attribute) and is_name(x.value, "self"):
                    fields.add(x.attr)
                elif isinstance(x, ast.Attribute) and isinstance(x.value, ast.Attribute) and is_name(x.value.value, "self"):
                    fields.add(x.value.attr)
    return consts, {f for f in fields if not f.startswith("$")}


def claimed_names(repo, cls, fn_node):
    """(constant names, fields) in block_scope/template_scope/partial_scope."""
    consts, fields = set(), set()
    for c in ast.walk(fn_node):
        if isinstance(c, ast.Call) and callee_name(c) == "Identifier" and c.args:
            s = fold_str(repo, cls.module, c.args[0], 0)
            if s is not None:
                consts.add(s)
            else:
                for x in ast.walk(c.args[0]):
                    if isinstance(x, ast.Attribute) and is_name(x.value, "self"):
                        fields.add(x.attr)
                    elif isinstance(x, ast.Attribute) and isinstance(x.value, ast.Attribute) and is_name(x.value.value, "self"):
                        fields.add(x.value.attr)
        if isinstance(c, (ast.Yield, ast.YieldFrom)) and c.value is not None:
            for x in ast.walk(c.value):
                if isinstance(x, ast.Attribute) and is_name(x.value, "self"):
                    fields.add(x.attr)
    return consts, fields


def is_name_(n, name):
    return isinstance(n, ast.Name) and n.id == name


def run(repo: Repo) -> Result:
    res = Result(PID)
    res.rules = ["C19-EXPR", "C19-CHILD", "C19-SCOPE", "C19-SUBEXPR", "C19-FILTERS", "C19-VISIT", "C19-KEY", "C19-BALANCE"]
    res.explanation = "per node/expression class: fields used while rendering/evaluating ⊆ fields reported to the analyser (expressions(), children(), scopes); shape of the analyser's visit"
    res.assumptions = ["partial de-duplication inside _visit is decided only as far as C19-KEY and C19-BALANCE go (history level)"]
    nodes = repo.subclasses("liquid.ast.Node", strict=True)
    if len(nodes) < 30:
        raise AnchorMissing(f"only {len(nodes)} node classes found")

    def method_of(cls, name):
        return repo.find_method(cls, name)

    n_nodes = 0
    for c in nodes:
        renders = [c.methods[m] for m in RENDER_METHODS if m in c.methods]
        if not renders and not any(k in c.methods for k in ("expressions", "children", "block_scope", "template_scope", "partial_scope")):
            continue
        n_nodes += 1
        # inherited render methods (e.g. EchoNode <- OutputNode) are analysed on the owner
        if not renders:
            renders = [m for m in (method_of(c, x) for x in RENDER_METHODS) if m is not None and m.cls.qual != "liquid.ast.Node"]
        expr_m = method_of(c, "expressions")
        child_m = method_of(c, "children")
        expr_fields = self_fields(expr_m.node) if expr_m and expr_m.cls.qual != "liquid.ast.Node" else set()
        child_fields = self_fields(child_m.node) if child_m and child_m.cls.qual != "liquid.ast.Node" else set()
        # helper methods of the class called from render (one level): merge their fields
        helper_nodes = []
        for r in renders:
            for call in calls(r.node, nested=True):
                if is_self_attr(call.func) and callee_name(call) not in RENDER_METHODS:
                    h = method_of(c, callee_name(call))
                    if h is not None and h.cls.qual != "liquid.ast.Node":
                        helper_nodes.append(h)
        for r in renders:
            ev = dict(evaluated_fields(r.node))
            rn = dict(rendered_fields(r.node))
            for h in helper_nodes:
                ev.update(evaluated_fields(h.node))
                rn.update(rendered_fields(h.node))
                # a helper that collects `<item>.value` of the items of self.<f> and returns them:
                # the render method evaluates what the helper returned (CallNode.macro_args)
                collects = any(isinstance(x, ast.Attribute) and x.attr == "value" and isinstance(x.ctx, ast.Load) for x in ast.walk(h.node))
                feeds = any(
                    isinstance(st, ast.Assign) and isinstance(unwrap_await(st.value), ast.Call) and is_self_attr(unwrap_await(st.value).func, h.name)
                    for st in ast.walk(r.node)
                )
                if collects and feeds and any(callee_name(x) in ("evaluate", "evaluate_async") for x in ast.walk(r.node) if isinstance(x, ast.Call)):
                    for n in ast.walk(h.node):
                        it = None
                        if isinstance(n, (ast.For, ast.AsyncFor)):
                            it = n.iter
                        elif isinstance(n, ast.comprehension):
                            it = n.iter
                        if it is not None:
                            for x in ast.walk(it):
                                if isinstance(x, ast.Attribute) and is_name(x.value, "self"):
                                    ev.setdefault(x.attr, n.lineno if hasattr(n, "lineno") else h.line)
            for fld, line in ev.items():
                res.ob(f"expr:{c.qual}.{fld}")
                if fld in expr_fields:
                    why = conditional_report(expr_m.node, fld) if expr_m is not None else None
                    if why is not None:
                        res.add("C19-EXPR", c.qual, f"{fld}:conditional", f"{r.qual} evaluates `self.{fld}` whenever it is set, but {c.name}.expressions() reports it only under a condition on something else ({why})", expr_m.file, expr_m.line)
                    continue
                if fld in child_fields and (id(r.node), fld) in VIA_ITEMS:
                    continue  # items are child nodes (elsif blocks) that report their own expressions
                # an expression reached through another reported expression (self.expression.cols)
                key = f"C19-EXPR|{c.qual}|{fld}"
                if key in REVIEWED and REVIEWED[key]:
                    continue
                res.add(
                    "C19-EXPR",
                    c.qual,
                    fld,
                    f"{r.qual} evaluates/resolves `self.{fld}` but {c.name}.expressions() does not report it: variables and filters used there are invisible to static analysis",
                    r.file,
                    line,
                )
            for fld, line in rn.items():
                res.ob(f"child:{c.qual}.{fld}")
                if fld in child_fields:
                    continue
                res.add(
                    "C19-CHILD",
                    c.qual,
                    fld,
                    f"{r.qual} renders `self.{fld}` but {c.name}.children() does not yield it: every tag, variable and filter below it is missing from the analysis",
                    r.file,
                    line,
                )
        # C19-SCOPE: claimed ⊆ bound
        for sm in ("block_scope", "template_scope", "partial_scope"):
            m = c.methods.get(sm)
            if m is None:
                continue
            cl_c, cl_f = claimed_names(repo, c, m.node)
            b_c, b_f = set(), set()
            binders = list(renders) + helper_nodes
            # macro parameters are bound by CallNode, snippets by render of RenderNode: see table
            if c.qual == "liquid.extra.tags.macro_tag.MacroNode":
                binders = [x for x in repo.cls("liquid.extra.tags.macro_tag.CallNode").methods.values() if x.name in RENDER_METHODS + ("macro_args",)]
                b_f |= {"args"}  # macro.args parameters are what macro_args binds
            for r in binders:
                bc, bf = bound_names(repo, c, r.node)
                b_c |= bc
                b_f |= bf
            res.ob(f"scope:{c.qual}.{sm}")
            for name in sorted(cl_c - b_c):
                res.add("C19-SCOPE", c.qual, f"{sm}:{name}", f"{c.name}.{sm}() claims to bind '{name}' but its render method never binds that name: a global of that name read in the body would not be reported", m.file, m.line)
            for fld in sorted(cl_f - b_f - {"token", "name"} if sm != "template_scope" else cl_f - b_f - {"token"}):
                res.add("C19-SCOPE", c.qual, f"{sm}:self.{fld}", f"{c.name}.{sm}() derives bound names from self.{fld}, which its render method does not bind", m.file, m.line)
            res.sample({"rule": "C19-SCOPE", "node": c.qual, "method": sm, "claimed": sorted(cl_c) + [f"self.{x}" for x in sorted(cl_f)], "bound": sorted(b_c) + [f"self.{x}" for x in sorted(b_f)]}, cap=20)
    if n_nodes < 25:
        raise AnchorMissing(f"only {n_nodes} node classes with render/reporting methods")
    # C19-SCOPE, conditional claims: a partial's bound variable (`with x` / `for xs`, by alias or by
    # the template's stem name) is put into the namespace only when the tag has one — the render
    # method stores that key under `self.var` (truthy / is not None).  `partial_scope()` may add
    # the corresponding name only under the same guard: claimed without it, a plain
    # `{% include 'product' %}` hides every global called `product` that the partial reads.
    from ..guards import canon as _canon_ps
    from ..guards import conditions as _conds_ps

    n_ps = 0
    for c in nodes:
        ps_m = c.methods.get("partial_scope")
        r_m = c.methods.get("render_to_output")
        if ps_m is None or r_m is None:
            continue
        guards = None  # the field guards common to every store of the bound variable's key
        for st, cs in _conds_ps(r_m.node):
            if isinstance(st, ast.Assign) and len(st.targets) == 1 and isinstance(st.targets[0], ast.Subscript) and isinstance(st.targets[0].slice, ast.Name):
                g_here = set()
                for cnd in cs:
                    t_ = _canon_ps(cnd)
                    for sfx in ("", " is not None"):
                        if t_.startswith("self.") and t_.endswith(sfx) and t_[5 : len(t_) - len(sfx)].isidentifier():
                            g_here.add(t_[5 : len(t_) - len(sfx)])
                guards = g_here if guards is None else guards & g_here
        if not guards:
            continue
        n_ps += 1
        for st, cs in _conds_ps(ps_m.node):
            if isinstance(st, ast.Expr) and isinstance(st.value, ast.Call) and callee_name(st.value) == "append":
                have = {_canon_ps(cnd) for cnd in cs}
                res.ob(f"scope-guard:{c.qual}.partial_scope")
                for g in sorted(guards):
                    if not ({f"self.{g}", f"self.{g} is not None"} & have):
                        res.add("C19-SCOPE", c.qual, f"partial_scope:unguarded:{g}", f"{c.name}.partial_scope() adds `{text(st.value.args[0])[:50] if st.value.args else ''}` to the partial's scope where `self.{g}` is not known to be set (path conditions: {sorted(have)}), but {c.name}.render_to_output binds that name only under `self.{g}`: without a bound variable the name is not bound at render time, and a global of that name read inside the partial is not reported", ps_m.file, st.lineno)
    if n_ps < 2:
        raise AnchorMissing(f"only {n_ps} nodes with a guarded bound variable found (include and render expected)")

    # ---- C19-SUBEXPR ----------------------------------------------------------------
    exprs = repo.subclasses("liquid.expression.Expression", strict=True)
    extra = [repo.cls("liquid.builtin.expressions.filtered.Filter"), repo.cls("liquid.builtin.expressions.arguments.KeywordArgument"), repo.cls("liquid.builtin.expressions.arguments.PositionalArgument")]
    n_e = 0
    for c in exprs + extra:
        evs = [c.methods[m] for m in ("evaluate", "evaluate_async", "evaluate_args", "evaluate_args_async") if m in c.methods]
        if not evs:
            continue
        ch = repo.find_method(c, "children")
        n_e += 1
        ch_fields = self_fields(ch.node) if ch is not None and ch.cls.qual != "liquid.expression.Expression" else set()
        for e in evs:
            for fld, line in evaluated_fields(e.node).items():
                res.ob(f"subexpr:{c.qual}.{fld}")
                if fld in ch_fields:
                    why = conditional_report(ch.node, fld)
                    if why is not None:
                        res.add("C19-SUBEXPR", c.qual, f"{fld}:conditional", f"{e.qual} evaluates `self.{fld}` whenever it is set, but {c.name}.children() returns it only under a condition on something else ({why}): paths and filters inside it can go unreported", ch.file, ch.line)
                    continue
                if c in extra and fld == "value":
                    continue  # argument wrappers: Filter.children() returns arg.value for each
                key = f"C19-SUBEXPR|{c.qual}|{fld}"
                if REVIEWED.get(key):
                    rq = REVIEWED_REQUIRES.get(key)
                    if rq is None or rq[2] in self_fields(repo.own_method(rq[0], rq[1]).node):
                        continue
                res.add("C19-SUBEXPR", c.qual, fld, f"{e.qual} evaluates `self.{fld}` but {c.name}.children() does not return it: paths and filters inside it are never analysed", e.file, line)
    if n_e < 20:
        raise AnchorMissing(f"only {n_e} expression classes with evaluate found")

    # ---- C19-FILTERS ------------------------------------------------------------------
    ef = repo.func("liquid.static_analysis._extract_filters")
    handled = {}
    for n in ast.walk(ef.node):
        if isinstance(n, ast.If):
            for c in ast.walk(n.test):
                if isinstance(c, ast.Call) and is_name(c.func, "isinstance") and len(c.args) == 2:
                    handled.setdefault(text(c.args[1]), set()).update(x.attr for st in n.body for x in ast.walk(st) if isinstance(x, ast.Attribute))
    for c in repo.all_classes():
        slots = c.attrs.get("__slots__")
        names = []
        if isinstance(slots, (ast.Tuple, ast.List)):
            names = [e.value for e in slots.elts if isinstance(e, ast.Constant)]
        for s in names:
            if "filters" in s:
                res.ob(f"filters:{c.qual}.{s}")
                if c.name not in handled or s not in handled[c.name]:
                    res.add("C19-FILTERS", c.qual, s, f"{c.qual}.{s} holds filters but _extract_filters has no `isinstance(expression, {c.name})` branch reading .{s}: filters applied there are not reported", ef.file, ef.line)
    res.ob("filters:name")
    # every reported pair is (<filter>.name, Span(...)) with <filter> an item of a filters slot — in
    # _extract_filters itself or in a private helper it hands the slot to
    def reports_name(fn_node) -> bool:
        for n in ast.walk(fn_node):
            tup = None
            if isinstance(n, (ast.GeneratorExp, ast.ListComp)) and isinstance(n.elt, ast.Tuple):
                tup, var = n.elt, (n.generators[0].target.id if isinstance(n.generators[0].target, ast.Name) else None)
            elif isinstance(n, (ast.For, ast.AsyncFor)) and isinstance(n.target, ast.Name):
                for y in ast.walk(n):
                    if isinstance(y, ast.Yield) and isinstance(y.value, ast.Tuple):
                        tup, var = y.value, n.target.id
            if tup is not None and var is not None and tup.elts and text(tup.elts[0]) == f"{var}.name":
                return True
        return False

    helpers_ef = [repo.resolve_in(ef.module, callee_name(c)) for c in calls(ef.node) if isinstance(c.func, ast.Name) and callee_name(c) != ef.name and callee_name(c).startswith("_")]
    if not (reports_name(ef.node) or any(hasattr(h, "node") and reports_name(h.node) for h in helpers_ef)):
        res.add("C19-FILTERS", ef.qual, "name", "_extract_filters must report f.name", ef.file, ef.line)
    if not _recurses_over_children(ef.node):
        res.add("C19-FILTERS", ef.qual, "recursion", "_extract_filters must recurse into expression.children()", ef.file, ef.line)

    # ---- C19-VISIT ----------------------------------------------------------------------
    for fq in ("liquid.static_analysis.analyze", "liquid.static_analysis.analyze_async"):
        f = repo.func(fq)
        src = text(f.node)
        res.ob(f"visit:{fq}", 6)
        visit0 = next((n for n in ast.walk(f.node) if isinstance(n, (ast.FunctionDef, ast.AsyncFunctionDef)) and n.name == "_visit"), None)
        nd = visit0.args.args[0].arg if visit0 is not None and visit0.args.args else "node"
        vnode = visit0 if visit0 is not None else f.node

        def loops_over(method, root=vnode, recv=None):
            recv = nd if recv is None else recv
            return [x for x in ast.walk(root) if isinstance(x, (ast.For, ast.AsyncFor)) and isinstance(unwrap_await(x.iter), ast.Call) and callee_name(unwrap_await(x.iter)) == method and text(call_recv(unwrap_await(x.iter))) == recv]

        def calls_named(name, root=vnode):
            return [c for c in ast.walk(root) if isinstance(c, ast.Call) and callee_name(c) == name]

        expr_loops = loops_over("expressions")
        expr_vars = {lp.target.id for lp in expr_loops if isinstance(lp.target, ast.Name)}
        child_method = "children" if fq.endswith("analyze") else "children_async"
        child_loops = loops_over(child_method)
        have = {
            "tags": any(callee_name(c) == "append" and isinstance(call_recv(c), ast.Subscript) and text(call_recv(c).slice) == f"{nd}.token.value" for c in ast.walk(vnode) if isinstance(c, ast.Call)),
            "expressions": bool(expr_loops),
            "variables": any(c.args and isinstance(c.args[0], ast.Name) and c.args[0].id in expr_vars for c in calls_named("_analyze_variables")),
            "filters": any(c.args and isinstance(c.args[0], ast.Name) and c.args[0].id in expr_vars for c in calls_named("_extract_filters")),
            "template_scope": bool(loops_over("template_scope")),
            "partial_scope": any(text(call_recv(c)) == nd for c in calls_named("partial_scope")),
            "block_scope": any(callee_name(c) == "push" and c.args and isinstance(c.args[0], ast.Call) and callee_name(c.args[0]) == "set" and c.args[0].args and isinstance(c.args[0].args[0], ast.Call) and callee_name(c.args[0].args[0]) == "block_scope" and text(call_recv(c.args[0].args[0])) == nd for c in ast.walk(vnode) if isinstance(c, ast.Call)),
            "children": bool(child_loops) and all(any(k.arg == "include_partials" and text(k.value) == "include_partials" for k in unwrap_await(lp.iter).keywords) for lp in child_loops),
            "roots": bool([x for x in ast.walk(f.node) if isinstance(x, (ast.For, ast.AsyncFor)) and text(x.iter) == "template.nodes"]),
        }
        for k, ok_ in have.items():
            if not ok_:
                res.add("C19-VISIT", fq, k, f"{fq}: the visit no longer collects the {k} of visited nodes", f.file, f.line)
        # evaluate-before-bind: a node's own expressions are analysed against the scope as it was
        # *before* the node's template-scope names are added (render evaluates `x | plus: 1` before
        # `assign x = ...` binds x), and children are visited after the block scope is pushed.
        visit = next((n for n in ast.walk(f.node) if isinstance(n, (ast.FunctionDef, ast.AsyncFunctionDef)) and n.name == "_visit"), None)
        res.ob(f"visit-order:{fq}", 2)
        if visit is None:
            res.add("C19-VISIT", fq, "no-visit", f"{fq}: nested _visit not found", f.file, f.line)
        else:
            def pos_of(pred):
                for i, st in enumerate(visit.body):
                    if any(pred(x) for x in [st] + list(ast.walk(st))):
                        return i
                return None

            def loop_over(method):
                return lambda x: isinstance(x, (ast.For, ast.AsyncFor)) and isinstance(x.iter, ast.Call) and callee_name(x.iter) == method and is_name_(call_recv(x.iter), nd)

            p_expr = pos_of(loop_over("expressions"))
            sc_ = visit.args.args[2].arg if len(visit.args.args) > 2 else "scope"
            p_bind = pos_of(lambda x: isinstance(x, ast.Call) and callee_name(x) == "add" and is_name_(call_recv(x), sc_))
            if p_expr is None or p_bind is None or not p_expr < p_bind:
                res.add(
                    "C19-VISIT",
                    fq,
                    "bind-before-evaluate",
                    f"{fq}: the names of node.template_scope() are added to the scope before (or without) the node's expressions being analysed: `{{% assign total = total | plus: 1 %}}` reads the global `total` at render time, but the analysis would treat it as already local",
                    f.file,
                    visit.lineno,
                )
    av = repo.func("liquid.static_analysis._analyze_variables")
    res.ob(av.qual, 2)
    s = text(av.node)
    p_expr0, p_vars0 = av.params()[0], av.params()[4] if len(av.params()) > 4 else "variables"
    var_locals = {st_.targets[0].id for st_ in ast.walk(av.node) if isinstance(st_, ast.Assign) and len(st_.targets) == 1 and isinstance(st_.targets[0], ast.Name) and isinstance(st_.value, ast.Call) and callee_name(st_.value) == "Variable"}
    records = any(callee_name(c) == "add" and text(call_recv(c)) == p_vars0 and c.args and isinstance(c.args[0], ast.Name) and c.args[0].id in var_locals for c in ast.walk(av.node) if isinstance(c, ast.Call))
    if f"isinstance({p_expr0}, Path)" not in s or not records or not _recurses_over_children(av.node):
        res.add("C19-VISIT", av.qual, "shape", "_analyze_variables must record every Path and recurse into expression.children()", av.file, av.line)
    # a path whose *root segment* is not in scope is reported as a global: `if <root> not in scope:
    # globals.add(var)`, where <root> is str(var.segments[0]) — written in place, bound to a local,
    # or read through a property of Variable that returns it
    from ..astutil import single_assignments as _sa

    la = _sa(av.node)
    vcls = repo.cls("liquid.static_analysis.Variable")

    def is_root_expr(e, depth=0) -> bool:
        if depth > 3:
            return False
        if isinstance(e, ast.Name) and e.id in la:
            return is_root_expr(la[e.id], depth + 1)
        if isinstance(e, ast.Call) and is_name_(e.func, "str") and len(e.args) == 1:
            return text(e.args[0]) == "self.segments[0]" or any(text(e.args[0]) == f"{v_}.segments[0]" for v_ in var_locals)
        if isinstance(e, ast.Attribute) and isinstance(e.value, ast.Name) and e.value.id in var_locals:
            prop = vcls.methods.get(e.attr)
            if prop is not None and "property" in prop.decorators():
                rets = [r.value for r in walk_no_nested(prop.node) if isinstance(r, ast.Return) and r.value is not None]
                return len(rets) == 1 and is_root_expr(rets[0], depth + 1)
        return False

    g_ok = False
    for n in ast.walk(av.node):
        if isinstance(n, ast.If) and isinstance(n.test, ast.Compare) and len(n.test.ops) == 1 and isinstance(n.test.ops[0], ast.NotIn) and is_name_(n.test.comparators[0], av.params()[2]) and is_root_expr(n.test.left):
            if any(isinstance(c, ast.Call) and callee_name(c) == "add" and is_name_(c.func.value if isinstance(c.func, ast.Attribute) else None, av.params()[3]) and c.args and isinstance(c.args[0], ast.Name) and c.args[0].id in var_locals for st_ in n.body for c in ast.walk(st_)) and not n.orelse:
                g_ok = True
    if not g_ok:
        res.add("C19-VISIT", av.qual, "globals", "_analyze_variables must report a path whose root is not in scope as a global", av.file, av.line)
    res.stats.update(node_classes=n_nodes, expression_classes=n_e)
    # ---- C19-KEY: an isolated partial is re-analysed whenever its scope differs ---------------
    # `_visit` skips a partial whose (name, key) was seen before.  For an ISOLATED partial
    # (render) the key must therefore cover *every* name the tag puts into the partial's
    # scope — keyword arguments and the bound variable/alias — on every path; a constant or
    # missing key (None is also what `_visit` records for every plain visit) or a key that
    # leaves a name out makes a later render with a smaller scope invisible.
    from ..astutil import single_assignments, resolve_local

    n_iso = 0
    for c in nodes:
        ps = c.methods.get("partial_scope")
        if ps is None:
            continue
        assigns = single_assignments(ps.node)
        for call in calls(ps.node):
            if callee_name(call) != "Partial":
                continue
            kw = {k.arg: k.value for k in call.keywords}
            scope_txt = text(kw.get("scope", call.args[1] if len(call.args) > 1 else ast.Constant(None)))
            if "SHARED" in scope_txt:
                # A partial that shares the caller's scope (include): which of its names are
                # globals depends on what is in scope at *each* place it is included.  `_visit`
                # revisits a partial (for globals only) when its key differs from the ones seen;
                # without a key the second and later includes of the same partial are skipped,
                # whatever is in scope there.
                res.ob(f"partial-key:{ps.qual}")
                if kw.get("key") is None or (isinstance(kw.get("key"), ast.Constant) and kw["key"].value is None):
                    res.add("C19-KEY", ps.qual, "shared-visited-once", f"{ps.qual}: a partial that shares the caller's scope carries no key, so `_visit` analyses it at its first include only: a name that is bound there (a loop variable, a `with ... as` alias, an earlier assign) but read from the render arguments at a later include of the same partial is never reported as a global", ps.file, call.lineno)
                continue
            if "ISOLATED" not in scope_txt:
                continue
            n_iso += 1
            res.ob(f"partial-key:{ps.qual}")
            key = kw.get("key")
            key_r = resolve_local(key, assigns) if key is not None else None
            in_scope = kw.get("in_scope", call.args[2] if len(call.args) > 2 else None)
            ok = isinstance(key_r, ast.Call) and is_name_(key_r.func, "hash") and len(key_r.args) == 1 and isinstance(key_r.args[0], ast.Tuple)
            if not ok:
                res.add("C19-KEY", ps.qual, f"key={text(key_r)[:40] if key_r is not None else None}", f"{ps.qual}: an isolated partial needs `key=hash((name, *names in scope))` on every path; found `{text(key_r) if key_r is not None else None}` — None/constant keys collide with the marker `_visit` stores for every visited template, so a later render with a different scope is skipped", ps.file, call.lineno)
                continue
            elts = key_r.args[0].elts
            covers_scope = isinstance(in_scope, ast.Name) and any(isinstance(e, ast.Starred) and is_name_(e.value, in_scope.id) for e in elts)
            name_expr = kw.get("name", call.args[0] if call.args else None)
            covers_name = name_expr is not None and any(text(e) == text(name_expr) for e in elts)
            if not covers_scope:
                res.add("C19-KEY", ps.qual, "key-misses-scope", f"{ps.qual}: the partial key `{text(key_r)[:60]}` does not cover every name passed as in_scope (`{text(in_scope) if in_scope is not None else None}`): two renders that differ only in a bound variable/alias share a key and the second is never analysed", ps.file, call.lineno)
            if not covers_name:
                res.add("C19-KEY", ps.qual, "key-misses-name", f"{ps.qual}: the partial key does not include the partial's name", ps.file, call.lineno)
            else:
                # the name component must identify the partial for every kind of name the node can
                # hold: resolved through the local assignments, no arm of it may be a constant
                # (``self.name.value if isinstance(self.name, StringLiteral) else ""`` gives every
                # partial named by an identifier — inline snippets — the same name, so `_visit`
                # takes the second snippet for the first one seen "with different arguments" and
                # records only its globals: its filters, tags and locals are never reported)
                nm_r = resolve_local(name_expr, assigns)
                arms = []
                todo_ = [nm_r]
                if isinstance(nm_r, ast.Name):
                    # bound in several branches (the conditional written as statements)
                    multi = [st_.value for st_ in ast.walk(ps.node) if isinstance(st_, ast.Assign) and len(st_.targets) == 1 and is_name_(st_.targets[0], nm_r.id)]
                    if len(multi) > 1:
                        todo_ = list(multi)
                        nm_r = ast.IfExp(test=ast.Constant(value=Ellipsis), body=multi[0], orelse=multi[1])
                while todo_:
                    x_ = todo_.pop()
                    if isinstance(x_, ast.IfExp):
                        todo_ += [x_.body, x_.orelse]
                    else:
                        arms.append(x_)
                const_arms = [a for a in arms if isinstance(a, ast.Constant)]
                if const_arms and len(arms) > 1:
                    res.add("C19-KEY", ps.qual, "name-collapses", f"{ps.qual}: the partial's name (and the name component of its key) is `{text(nm_r)[:80]}` — the constant {const_arms[0].value!r} for every partial that is not named by a string literal: two different inline snippets share one name, the visit treats the second as the first 'seen with other arguments' and records only globals for it, so the filters, tags and locals used in the second snippet are never reported", ps.file, call.lineno)
    if n_iso < 1:
        raise AnchorMissing("no node declares an ISOLATED partial scope any more; re-derive C19-KEY")
    # ---- C19-BALANCE: every scope frame the visit pushes is popped before it returns -----------------
    # ``_visit`` keeps the names in scope on a stack of frames shared by the whole walk.  A frame
    # pushed and not popped on some path (an early return between the two) stays on the stack for
    # the rest of the template — or makes an enclosing block's own pop remove the wrong frame — and
    # every later read of one of its names is taken for a local: a variable the render reads from
    # its arguments is missing from ``globals``.  All paths of the visit, counting frames.
    for fq in ("liquid.static_analysis.analyze", "liquid.static_analysis.analyze_async"):
        f = repo.func(fq)
        visit = next((n for n in ast.walk(f.node) if isinstance(n, (ast.FunctionDef, ast.AsyncFunctionDef)) and n.name == "_visit"), None)
        if visit is None:
            raise AnchorMissing(f"{fq}: nested _visit not found")
        # module-level helpers that push a frame for their caller (and do not pop it themselves)
        openers = set()
        for hn, hf in f.module.functions.items():
            hd = [c.func.attr for c in ast.walk(hf.node) if isinstance(c, ast.Call) and isinstance(c.func, ast.Attribute) and isinstance(c.func.value, ast.Name) and "scope" in c.func.value.id and c.func.attr in ("push", "pop")]
            if "push" in hd and "pop" not in hd:
                openers.add(hn)
        n_push, bad = _scope_balance(visit, openers)
        res.ob(f"balance:{fq}", max(1, n_push))
        if n_push < 2:
            raise AnchorMissing(f"{fq}: only {n_push} scope pushes found in _visit (block scope and partial scope expected)")
        for node_, pending in bad:
            res.add("C19-BALANCE", fq, f"unpopped:{'return' if isinstance(node_, ast.Return) else 'end'}", f"{fq}: _visit can leave ({'return' if isinstance(node_, ast.Return) else 'end of function'}, line {getattr(node_, 'lineno', 0)}) with {pending} scope frame(s) it pushed still on the stack: the names of that frame stay in scope for the rest of the walk, so later reads of them are not reported as globals", f.file, getattr(node_, "lineno", f.line))
    return res


def _scope_balance(fn: ast.AST, openers: set = frozenset()) -> tuple[int, list]:
    """(number of push sites, [(exit node, frames still pushed)]) over all paths of ``fn``.
    A statement that contains ``<scope>.push(...)`` opens a frame (also when the push is one arm of
    a conditional expression whose other arm builds a fresh scope: the matching pop is
    unconditional); ``<scope>.pop()`` closes one.  Loops run zero or one time."""

    def is_scope(e: ast.AST) -> bool:
        return isinstance(e, ast.Name) and "scope" in e.id

    def delta(st: ast.AST) -> int:
        d = 0
        for c in ast.walk(st):
            if isinstance(c, ast.Call) and isinstance(c.func, ast.Attribute) and is_scope(c.func.value):
                if c.func.attr == "push":
                    d += 1
                elif c.func.attr == "pop" and not c.args:
                    d -= 1
            elif isinstance(c, ast.Call) and isinstance(c.func, ast.Name) and c.func.id in openers:
                d += 1
        return d

    n_push = sum(1 for c in ast.walk(fn) if isinstance(c, ast.Call) and ((isinstance(c.func, ast.Attribute) and c.func.attr == "push" and is_scope(c.func.value)) or (isinstance(c.func, ast.Name) and c.func.id in openers)))
    bad = []

    def block(body, states: set[int]) -> set[int]:
        for st in body:
            if not states:
                break
            states = stmt(st, states)
        return states

    def stmt(st, states: set[int]) -> set[int]:
        if isinstance(st, ast.Return):
            for s_ in states:
                if s_ > 0:
                    bad.append((st, s_))
            return set()
        if isinstance(st, ast.Raise):
            return set()
        if isinstance(st, ast.If):
            d = delta(st.test)
            states = {s_ + d for s_ in states}
            return block(st.body, set(states)) | (block(st.orelse, set(states)) if st.orelse else set(states))
        if isinstance(st, (ast.For, ast.AsyncFor, ast.While)):
            head = st.iter if not isinstance(st, ast.While) else st.test
            d = delta(head)
            states = {s_ + d for s_ in states}
            once = block(st.body, set(states))
            return states | once
        if isinstance(st, ast.Try):
            out = block(st.body, set(states))
            for h in st.handlers:
                out |= block(h.body, set(states))
            if st.orelse:
                out = block(st.orelse, out)
            return block(st.finalbody, out) if st.finalbody else out
        if isinstance(st, (ast.With, ast.AsyncWith)):
            d = sum(delta(i.context_expr) for i in st.items)
            return block(st.body, {s_ + d for s_ in states})
        if isinstance(st, (ast.FunctionDef, ast.AsyncFunctionDef, ast.ClassDef)):
            return states
        d = delta(st)
        return {s_ + d for s_ in states}

    end = block(fn.body, {0})
    for s_ in end:
        if s_ > 0:
            bad.append((fn, s_))
    return n_push, bad


def selftest(repo: Repo):
    from ..selftest import Variant, text_edit

    def v(name, rel, old, new, expect, count=1):
        return lambda: Variant(name, text_edit(repo, rel, old, new, count), expect)

    T = "liquid/builtin/tags/"
    return [
        v("render-key-none-without-args", T + "render_tag.py", "        partial_key = hash((partial_name, *scope))\n", "        partial_key = hash((partial_name, *scope)) if self.args else None\n", "C19-KEY"),
        v("render-key-omits-bound-name", T + "render_tag.py", "        partial_key = hash((partial_name, *scope))\n", "        partial_key = hash((partial_name, *[arg.name for arg in self.args]))\n", "C19-KEY"),
        v("include-drops-var", T + "include_tag.py", "        yield self.name\n        if self.var:\n            yield self.var\n", "        yield self.name\n", "C19-EXPR"),
        v("cycle-drops-group", T + "cycle_tag.py", "        if self.group:\n            yield self.group\n        yield from self.args", "        yield from self.args", "C19-EXPR"),
        v("for-drops-default-child", T + "for_tag.py", "        yield self.block\n        if self.default:\n            yield self.default\n\n    def expressions", "        yield self.block\n\n    def expressions", "C19-CHILD"),
        v("if-drops-alternatives", T + "if_tag.py", "        yield self.consequence\n        yield from self.alternatives\n", "        yield self.consequence\n", "C19-CHILD"),
        v("case-drops-subject", T + "case_tag.py", "    def expressions(self) -> Iterable[Expression]:\n        \"\"\"Return this node's expressions.\"\"\"\n        yield self.expression\n\n\nclass CaseTag", "    def expressions(self) -> Iterable[Expression]:\n        \"\"\"Return this node's expressions.\"\"\"\n        return []\n\n\nclass CaseTag", "C19-"),
        v("capture-no-children", T + "capture_tag.py", "        \"\"\"Return this node's children.\"\"\"\n        yield self.block\n", "        \"\"\"Return this node's children.\"\"\"\n        return []\n", "C19-CHILD"),
        v("tablerow-claims-forloop", T + "tablerow_tag.py", '        yield Identifier("tablerowloop", token=self.token)', '        yield Identifier("tablerowloop", token=self.token)\n        yield Identifier("forloop", token=self.token)', "C19-SCOPE"),
        v("assign-claims-nothing-extra", T + "assign_tag.py", "        yield self.name\n", '        yield self.name\n        yield Identifier("page", token=self.token)\n', "C19-SCOPE"),
        v("ternary-drops-condition", "liquid/builtin/expressions/filtered.py", "        children = self.left.children()\n        children.append(self.condition)\n", "        children = self.left.children()\n", "C19-SUBEXPR"),
        v("range-drops-stop", "liquid/builtin/expressions/primitive.py", "        return [self.start, self.stop]", "        return [self.start]", "C19-SUBEXPR"),
        v("loop-children-break-on-first-missing", "liquid/builtin/expressions/loop.py", "        if self.limit is not None:\n            children.append(self.limit)\n\n        if self.offset is not None:\n            children.append(self.offset)\n\n        if self.cols is not None:\n            children.append(self.cols)\n", "        for arg in (self.limit, self.offset, self.cols):\n            if arg is None:\n                break\n            children.append(arg)\n", "C19-SUBEXPR"),
        lambda: Variant("loop-children-loop-with-continue-is-silent", text_edit(repo, "liquid/builtin/expressions/loop.py", "        if self.limit is not None:\n            children.append(self.limit)\n\n        if self.offset is not None:\n            children.append(self.offset)\n\n        if self.cols is not None:\n            children.append(self.cols)\n", "        for arg in (self.limit, self.offset, self.cols):\n            if arg is None:\n                continue\n            children.append(arg)\n", 1), "C19-", silent=True),
        v("loop-children-offset-only-with-limit", "liquid/builtin/expressions/loop.py", "        if self.offset is not None:\n            children.append(self.offset)\n", "        if self.offset is not None and self.limit is not None:\n            children.append(self.offset)\n", "C19-SUBEXPR"),
        v("include-var-only-with-alias", T + "include_tag.py", "        yield self.name\n        if self.var:\n            yield self.var\n", "        yield self.name\n        if self.var and self.alias:\n            yield self.var\n", "C19-EXPR"),
        v("loop-drops-limit", "liquid/builtin/expressions/loop.py", "        if self.limit is not None:\n            children.append(self.limit)\n", "", "C19-SUBEXPR"),
        v("extract-filters-skips-tail", "liquid/static_analysis.py", "        if expression.tail_filters:\n            yield from (\n                (f.name, Span(template_name, f.token.start_index))\n                for f in expression.tail_filters\n            )\n", "", "C19-FILTERS"),
        v("visit-skips-template-scope", "liquid/static_analysis.py", "        for ident in node.template_scope():\n            scope.add(ident)", "        for ident in ():\n            scope.add(ident)", "C19-VISIT", count=2),
        v("with-drops-expressions", "liquid/extra/tags/_with.py", "        yield from (arg.value for arg in self.args)", "        return []", "C19-EXPR"),
        v("call-drops-kwargs", "liquid/extra/tags/macro_tag.py", "        yield from (arg.value for arg in self.kwargs if arg.value)\n", "", "C19-EXPR"),
    ]
