"""C03 — lax and warn modes suppress errors without changing correct output.

Clauses decided (HND + OWN):
  C03-ROUTE    every place where tag parsing / node rendering can fail is wrapped by a
               handler that catches LiquidError and hands it to ``Environment.error``
               (never re-raises): ``Tag.get_node`` around ``self.parse``; every
               ``.get_node(`` call in ``Parser._parse``/``parse_block``; every ``node.render*``
               call in ``BoundTemplate.render_with_context*``; the elsif recovery handlers of
               if/unless.  No Tag subclass overrides ``get_node``.
  C03-DISPATCH ``Environment.error`` and ``RenderContext.error`` raise iff mode == STRICT,
               warn iff mode == WARN (``warnings.warn``), and do nothing else.
  C03-MODE     every other read of the tolerance mode has the shape
               ``if [c and] <env>.mode == Mode.STRICT [and c]: raise ...`` with no else
               and no other effect — so a run that does not raise in strict mode executes
               exactly the same statements in warn and lax mode (identical output, no
               warnings).  Tag-local ``mode`` class constants are never assigned from the
               environment.
  C03-SWALLOW  every handler that can catch a LiquidError and neither re-raises nor
               routes it to a dispatcher is a reviewed row (reason recorded); a new
               silent swallow is a violation (it would hide an error from warn mode).
  C03-FORMAT   warn mode formats every error it suppresses (``warnings.warn(str(exc))``): the
               formatter must not raise for a token of the lexer — ``_error_context`` adds up
               ``splitlines(keepends=True)`` lengths (rule shared with C20-ERR); otherwise a
               multi-line template whose error sits near its end raises in warn mode.
  C03-ESCAPE   (via the EXC engine, when available) no LiquidError raise site reachable
               from parsing/rendering escapes the routing handlers in lax mode.

Not decided: that error recovery (eat_block) resynchronises at the right token.
"""

from __future__ import annotations

import ast

from ..astutil import call_recv, attr_chain, callee_name, calls, handler_types, is_self_attr, text, is_name
from ..core import Result
from ..engines import hnd
from ..model import AnchorMissing, Repo, walk_no_nested

PID = "C03"
MIN_OBLIGATIONS = 30

# handlers that swallow a LiquidError-family exception on purpose (reviewed by reading)
REVIEWED_SWALLOW = {
    "liquid.filter.sequence_filter|FilterItemTypeError": "documented: array filters return nil when an item has the wrong type; same in every mode",
    "liquid.builtin.filters.math.round_|FilterArgumentError": "falls back to round(num) when ndigits is not a number; same in every mode",
    "liquid.builtin.loaders.choice_loader.ChoiceLoader.get_source|TemplateNotFoundError": "tries the next loader; raises TemplateNotFoundError after the loop",
    "liquid.builtin.loaders.choice_loader.ChoiceLoader.get_source_async|TemplateNotFoundError": "tries the next loader; raises TemplateNotFoundError after the loop",
    "liquid.builtin.tags.case_tag.CaseTag._parse_when_expression|LiquidSyntaxError": "reference-compatible: a malformed trailing `when` alternative is dropped in every mode (not mode dependent)",
}


def _mode_reads(repo: Repo):
    """Every Attribute read ``X.mode`` where X is env-like, with its function."""
    for f in repo.all_functions():
        for n in ast.walk(f.node):
            if isinstance(n, ast.Attribute) and n.attr == "mode" and isinstance(n.ctx, ast.Load):
                chain = attr_chain(n)
                if chain is None:
                    continue
                yield f, n, chain


def _is_strict_cmp(node: ast.AST, env_like) -> bool:
    return (
        isinstance(node, ast.Compare)
        and len(node.ops) == 1
        and isinstance(node.ops[0], ast.Eq)
        and isinstance(node.left, ast.Attribute)
        and node.left.attr == "mode"
        and text(node.comparators[0]) in ("Mode.STRICT",)
    )


def run(repo: Repo) -> Result:
    res = Result(PID)
    res.rules = ["C03-ROUTE", "C03-DISPATCH", "C03-MODE", "C03-SWALLOW", "C03-FORMAT"]
    res.explanation = (
        "error-routing shape (every failing construct wrapped by a LiquidError handler that "
        "calls Environment.error), dispatcher shape (raise iff STRICT, warn iff WARN), and a "
        "who-may rule on every read of the tolerance mode (strict-only raise guards)"
    )
    res.assumptions = [
        "lexer errors are outside the property (sources the lexer accepts)",
        "non-Liquid exceptions converted by from_string are decided under C02/C09",
    ]
    H = hnd.Hier(repo)

    # ---- C03-ROUTE ---------------------------------------------------------
    def routes_without_raise(handler: ast.ExceptHandler) -> bool:
        kinds, _ = hnd.classify(handler)
        return "route" in kinds and "reraise" not in kinds and "convert" not in kinds

    def check_wrapped(fn, call, what):
        res.ob(f"{fn.qual}:{text(call)[:60]}")
        encl = hnd.enclosing_try_handlers(fn.node, call)
        for _try, hs in encl:
            for h in hs:
                if H.catches(handler_types(h), "LiquidError"):
                    if routes_without_raise(h):
                        return True
                    res.add(
                        "C03-ROUTE",
                        fn.qual,
                        f"{what}:handler-does-not-route",
                        f"{fn.qual}: the LiquidError handler around `{text(call)[:80]}` must hand the error to env.error and not raise",
                        fn.file,
                        h.lineno,
                    )
                    return False
        res.add(
            "C03-ROUTE",
            fn.qual,
            f"{what}:unwrapped",
            f"{fn.qual}: `{text(call)[:80]}` is not inside a try/except LiquidError that routes to env.error — "
            "in lax mode the error would escape",
            fn.file,
            call.lineno,
        )
        return False

    get_node = repo.own_method("liquid.tag.Tag", "get_node")
    parse_calls = [c for c in calls(get_node.node) if callee_name(c) == "parse" and is_self_attr(c.func)]
    if len(parse_calls) != 1:
        res.ob(get_node.qual)
        res.add("C03-ROUTE", get_node.qual, "parse-call-count", f"Tag.get_node must call self.parse exactly once (found {len(parse_calls)})", get_node.file, get_node.line)
    for c in parse_calls:
        check_wrapped(get_node, c, "self.parse")
    # get_node's handler returns an IllegalNode
    res.ob(get_node.qual + ":IllegalNode")
    for n in ast.walk(get_node.node):
        if isinstance(n, ast.ExceptHandler):
            rets = [s for s in walk_no_nested(n) if isinstance(s, ast.Return)]
            if not rets or not all(isinstance(r.value, ast.Call) and callee_name(r.value) == "IllegalNode" for r in rets):
                res.add("C03-ROUTE", get_node.qual, "no-illegal-node", "Tag.get_node's handler must return an IllegalNode placeholder", get_node.file, n.lineno)
    # nobody overrides get_node
    for c in repo.subclasses("liquid.tag.Tag", strict=True):
        res.ob(c.qual + ":get_node")
        if "get_node" in c.methods:
            res.add("C03-ROUTE", c.qual, "overrides-get_node", f"{c.qual} overrides Tag.get_node and bypasses the error routing", c.file, c.methods["get_node"].line)
    n_tags = len(repo.subclasses("liquid.tag.Tag", strict=True))
    if n_tags < 25:
        raise AnchorMissing(f"only {n_tags} Tag subclasses found")
    # direct Tag.parse calls elsewhere: `<something>.parse(stream)` where the receiver is a tag
    # registry lookup (tags[...] / tags.get(...)): must be get_node instead
    # Every `get_node` dispatch of the parser module is *protected*: lexically inside a try whose
    # LiquidError handler routes to env.error, or inside a helper / closure all of whose call
    # sites are protected (followed through `x = self._factory()` ... `x(stream)` and plain helper
    # calls, depth <= 3).  Both parser loops must reach at least one such dispatch.
    import copy as _copy

    from ..normalize import NFunc, propagate_aliases

    def A(f):
        return NFunc(f, propagate_aliases(_copy.deepcopy(f.node)))

    pmod = repo.module("liquid.parser")
    pfuncs = [A(f) for f in repo.all_functions() if f.module is pmod and f.parent is None]

    def nested_defs(node):
        return [n for n in ast.walk(node) if isinstance(n, (ast.FunctionDef, ast.AsyncFunctionDef)) and n is not node]

    def lex_protected(owner_node, call) -> bool:
        for _try, hs in hnd.enclosing_try_handlers(owner_node, call):
            for h in hs:
                if H.catches(handler_types(h), "LiquidError"):
                    return routes_without_raise(h)
        return False

    def innermost_def(top, call):
        """the innermost (nested) def of ``top`` that contains ``call``"""
        best = top
        for d in nested_defs(top):
            if any(x is call for x in ast.walk(d)):
                if best is top or any(x is d for x in ast.walk(best)):
                    best = d
        return best

    def call_sites_of(defnode, top):
        """call sites of a helper: [(top-level function node, call)]"""
        sites = []
        name = defnode.name
        is_nested = defnode is not top
        if is_nested:
            # returned by its parent (a factory)?  then follow `x = <parent>(...)` ... `x(...)`
            returned = any(isinstance(r, ast.Return) and is_name(r.value, name) for r in ast.walk(top))
            for g in pfuncs:
                for c in calls(g.node, nested=True):
                    if is_name(c.func, name) and any(x is c for x in ast.walk(top)):
                        sites.append((g.node, c))
                if returned:
                    for st in ast.walk(g.node):
                        if isinstance(st, ast.Assign) and len(st.targets) == 1 and isinstance(st.targets[0], ast.Name) and isinstance(st.value, ast.Call) and callee_name(st.value) == top.name:
                            var = st.targets[0].id
                            for c in calls(g.node, nested=True):
                                if is_name(c.func, var):
                                    sites.append((g.node, c))
        else:
            for g in pfuncs:
                for c in calls(g.node, nested=True):
                    if callee_name(c) == name and c is not None and not any(x is c for x in ast.walk(defnode)):
                        sites.append((g.node, c))
        return sites

    def protected(top, call, depth=0) -> bool:
        owner = innermost_def(top, call)
        if lex_protected(owner, call) or (owner is not top and lex_protected(top, call)):
            return True
        if depth >= 3:
            return False
        sites = call_sites_of(owner, top)
        return bool(sites) and all(protected(t2, c2, depth + 1) for t2, c2 in sites)

    n_dispatch = 0
    for g in pfuncs:
        for c in calls(g.node, nested=True):
            if callee_name(c) == "get_node":
                n_dispatch += 1
                res.ob(f"{g.qual}:{text(c)[:60]}")
                if not protected(g.node, c):
                    res.add("C03-ROUTE", g.qual, "get_node:unwrapped", f"{g.qual}: `{text(c)[:80]}` is not (and none of its callers is) inside a try/except LiquidError that routes to env.error — in lax mode the error would escape", g.file, c.lineno)
            if callee_name(c) == "parse" and isinstance(c.func, ast.Attribute) and not is_self_attr(c.func) and text(call_recv(c)) not in ("self", "parser") and ("tags" in text(call_recv(c)) or "tag" == text(call_recv(c))):
                res.ob(f"{g.qual}:direct-parse")
                res.add("C03-ROUTE", g.qual, "direct-parse", f"{g.qual} calls `{text(c)[:60]}` directly instead of get_node", g.file, c.lineno)
    if n_dispatch < 2:
        raise AnchorMissing(f"liquid.parser: only {n_dispatch} get_node dispatch calls found")
    for fq in ("liquid.parser.Parser._parse", "liquid.parser.Parser.parse_block"):
        fn = A(repo.func(fq))
        res.ob(f"{fq}:dispatches")
        # the loop reaches a dispatch: directly, through a helper of the module, or through a closure
        reach = any(callee_name(c) == "get_node" for c in calls(fn.node, nested=True))
        if not reach:
            local_callables = {st.targets[0].id for st in ast.walk(fn.node) if isinstance(st, ast.Assign) and len(st.targets) == 1 and isinstance(st.targets[0], ast.Name) and isinstance(st.value, ast.Call)}
            for c in calls(fn.node, nested=True):
                tgt = None
                if is_name(c.func, c.func.id if isinstance(c.func, ast.Name) else "") and c.func.id in local_callables:
                    reach = reach or any(callee_name(x) == "get_node" for g in pfuncs for x in calls(g.node, nested=True))
                nm = callee_name(c)
                for g in pfuncs:
                    if g.name == nm and any(callee_name(x) == "get_node" for x in calls(g.node, nested=True)):
                        reach = True
        if not reach:
            res.add("C03-ROUTE", fq, "get_node-count", f"{fq}: no get_node dispatch is reachable from the loop", fn.file, fn.line)
    for fq in (
        "liquid.template.BoundTemplate.render_with_context",
        "liquid.template.BoundTemplate.render_with_context_async",
    ):
        fn = A(repo.func(fq))
        rcalls = [c for c in calls(fn.node) if callee_name(c) in ("render", "render_async", "render_to_output", "render_to_output_async")]
        if not rcalls:
            res.ob(fn.qual)
            res.add("C03-ROUTE", fn.qual, "no-render-call", f"{fn.qual}: no node.render call found", fn.file, fn.line)
        for c in rcalls:
            check_wrapped(fn, c, "node.render")
    # In the outermost routers nothing above can hand an error to env.error any more: every
    # LiquidError *constructed and raised* there must itself sit in a try body with a routing
    # handler.  (A raise inside an `except` clause is not covered by the sibling clauses of
    # the same try: `except LiquidInterrupt: raise LiquidSyntaxError(..)` escapes in lax mode.)
    for fq in (
        "liquid.template.BoundTemplate.render_with_context",
        "liquid.template.BoundTemplate.render_with_context_async",
        "liquid.template.BoundTemplate.render",
        "liquid.template.BoundTemplate.render_async",
        "liquid.parser.Parser._parse",
        "liquid.parser.Parser.parse",
    ):
        try:
            fn = A(repo.func(fq))
        except AnchorMissing:
            continue
        res.ob(f"{fn.qual}:raises-routed")
        for n in walk_no_nested(fn.node):
            if not isinstance(n, ast.Raise) or n.exc is None:
                continue
            e = n.exc.func if isinstance(n.exc, ast.Call) else n.exc
            nm = text(e).split(".")[-1]
            if not H.is_sub(nm, "LiquidError") or H.is_sub(nm, "ResourceLimitError"):
                continue
            routed = False
            for _try, hs in hnd.enclosing_try_handlers(fn.node, n):
                for h in hs:
                    if H.catches(handler_types(h), nm) :
                        routed = routes_without_raise(h)
                        break
                if routed:
                    break
            if not routed:
                res.add("C03-ROUTE", fn.qual, f"raise-unrouted:{nm}", f"{fn.qual} raises {nm} directly (`{text(n)[:70]}`) where no handler routes it to env.error: the error escapes in lax and warn mode", fn.file, n.lineno)
    for fq in ("liquid.builtin.tags.if_tag.IfTag.parse", "liquid.builtin.tags.unless_tag.UnlessTag.parse"):
        fn = repo.func(fq)
        for n in ast.walk(fn.node):
            if isinstance(n, ast.ExceptHandler) and H.may_catch_family(handler_types(n), "LiquidError"):
                res.ob(f"{fn.qual}:elsif-recovery")
                if not routes_without_raise(n):
                    res.add("C03-ROUTE", fn.qual, "elsif-recovery", f"{fn.qual}: the elsif recovery handler must route the error to env.error", fn.file, n.lineno)

    # ---- C03-DISPATCH ------------------------------------------------------
    for fq, mode_chain in (
        ("liquid.environment.Environment.error", ["self", "mode"]),
        ("liquid.context.RenderContext.error", ["self", "env", "mode"]),
    ):
        fn = repo.func(fq)
        res.ob(fn.qual, 3)
        raises, warns, other_effects = [], [], []

        def cond_of(stmt_stack):
            return [text(t) for t in stmt_stack]

        def walk(body, conds):
            for s in body:
                if isinstance(s, ast.If):
                    walk(s.body, conds + [("T", s.test)])
                    walk(s.orelse, conds + [("F", s.test)])
                elif isinstance(s, ast.Raise):
                    raises.append((s, conds))
                elif isinstance(s, ast.Expr) and isinstance(s.value, ast.Constant):
                    continue
                elif isinstance(s, ast.Expr) and isinstance(s.value, ast.Call) and text(s.value.func) == "warnings.warn":
                    warns.append((s, conds))
                elif isinstance(s, ast.Assign):
                    # exc = exc(msg, token=token) / exc.token = token : shaping the exception only
                    tgt = s.targets[0]
                    ok = (isinstance(tgt, ast.Name) and tgt.id == "exc") or (
                        isinstance(tgt, ast.Attribute) and isinstance(tgt.value, ast.Name) and tgt.value.id == "exc"
                    )
                    if not ok:
                        other_effects.append(s)
                else:
                    other_effects.append(s)

        walk(fn.node.body, [])

        def is_mode_eq(test, which):
            return (
                isinstance(test, ast.Compare)
                and len(test.ops) == 1
                and isinstance(test.ops[0], ast.Eq)
                and attr_chain(test.left) == mode_chain
                and text(test.comparators[0]) == f"Mode.{which}"
            )

        if len(raises) != 1 or not any(k == "T" and is_mode_eq(t, "STRICT") for k, t in raises[0][1]) if raises else True:
            res.add("C03-DISPATCH", fn.qual, "raise-iff-strict", f"{fn.qual}: must contain exactly one raise, guarded by mode == Mode.STRICT", fn.file, fn.line)
        else:
            # the raise must be guarded by the strict test only
            guards = raises[0][1]
            if not (len(guards) == 1 and guards[0][0] == "T"):
                res.add("C03-DISPATCH", fn.qual, "raise-extra-guard", f"{fn.qual}: the raise has extra conditions {[text(t) for _, t in guards]}", fn.file, raises[0][0].lineno)
            if not (isinstance(raises[0][0].exc, ast.Name) and raises[0][0].exc.id == "exc"):
                res.add("C03-DISPATCH", fn.qual, "raise-other", f"{fn.qual}: must raise the given exception", fn.file, raises[0][0].lineno)
        if len(warns) != 1 or not (len(warns[0][1]) == 1 and warns[0][1][0][0] == "T" and is_mode_eq(warns[0][1][0][1], "WARN")):
            res.add("C03-DISPATCH", fn.qual, "warn-iff-warn", f"{fn.qual}: must call warnings.warn exactly once, guarded only by mode == Mode.WARN", fn.file, fn.line)
        for s in other_effects:
            res.add("C03-DISPATCH", fn.qual, f"effect:{text(s)[:50]}", f"{fn.qual}: unexpected statement `{text(s)[:80]}` in the error dispatcher", fn.file, s.lineno)
        # top-level tests: the strict test must come first (a raise inside lax/warn never happens)
        res.sample({"rule": "C03-DISPATCH", "function": fn.qual, "raises": len(raises), "warns": len(warns)})

    # the dispatchers are total: whatever they call on the lax / warn legs (the warning category
    # lookup, str(exc)) lets nothing escape — otherwise "suppressing" an error raises another one
    # (exception-escape analysis, sa/engines/exc.py, rooted at the two dispatchers)
    from ..engines.exc import Exc

    ex = Exc(repo)
    droots = [(repo.own_method("liquid.environment.Environment", "error"), {}), (repo.own_method("liquid.context.RenderContext", "error"), {})]
    ex.run(droots)
    for rk in ex.root_keys:
        res.ob(f"dispatch-total:{rk[0]}")
        for site in ex.summaries[rk].escapes:
            res.add(
                "C03-DISPATCH",
                rk[0],
                f"escape:{site.func.split('.')[-1]}:{site.prim}:{site.exc}",
                f"{rk[0]}: `{site.prim}` on `{site.arg[:50]}` in {site.func} may raise {site.exc} while an error is being suppressed (lax) or reported as a warning (warn): the mode no longer suppresses, it replaces the error",
                site.file,
                site.line,
            )

    # ---- C03-MODE ----------------------------------------------------------
    dispatchers = {"liquid.environment.Environment.error", "liquid.context.RenderContext.error"}
    tag_mode_classes = {c.qual for c in repo.all_classes() if "mode" in c.attrs}
    n_reads = 0
    for f, n, chain in _mode_reads(repo):
        if f.qual in dispatchers:
            continue
        # env-like receivers only
        recv = chain[:-1]
        is_env_like = recv[-1] == "env" or (f.cls and f.cls.qual == "liquid.environment.Environment" and recv == ["self"])
        is_tag_local = f.cls is not None and recv == ["self"] and any(k.qual in tag_mode_classes for k in repo.mro_classes(f.cls))
        if not is_env_like and not is_tag_local:
            continue
        n_reads += 1
        construct = f"{f.qual}:{text(n)}"
        res.ob(construct)
        if f.name == "__hash__" and is_env_like:
            continue  # part of the parser memo key (C11)
        # find the enclosing If whose test contains n
        owner_if = None
        for st in ast.walk(f.node):
            if isinstance(st, ast.If) and any(x is n for x in ast.walk(st.test)):
                owner_if = st
        if owner_if is None:
            res.add("C03-MODE", f.qual, f"non-guard-read:{text(n)}", f"{f.qual}: tolerance mode read outside an if-guard: `{text(n)}`", f.file, n.lineno)
            continue
        test = owner_if.test
        if is_tag_local:
            # class constant on IfTag/UnlessTag: compared only, never assigned from env
            continue
        # shape: Compare(== Mode.STRICT) directly or as a conjunct of an `and`
        conj = test.values if isinstance(test, ast.BoolOp) and isinstance(test.op, ast.And) else [test]
        ok_shape = any(_is_strict_cmp(c, None) and any(x is n for x in ast.walk(c)) for c in conj)
        body_ok = all(isinstance(s, ast.Raise) for s in owner_if.body) and not owner_if.orelse
        if not ok_shape:
            res.add("C03-MODE", f.qual, f"not-strict-guard:{text(test)[:60]}", f"{f.qual}: mode is tested as `{text(test)[:90]}`; only `mode == Mode.STRICT` conjuncts are allowed outside the dispatchers", f.file, n.lineno)
        elif not body_ok:
            res.add("C03-MODE", f.qual, f"guard-with-effect:{text(test)[:60]}", f"{f.qual}: a strict-mode guard must only raise (no else, no other statement): `if {text(test)[:80]}`", f.file, owner_if.lineno)
        else:
            res.sample({"rule": "C03-MODE", "function": f.qual, "guard": text(test)[:100]})
    if n_reads < 9:
        raise AnchorMissing(f"only {n_reads} tolerance-mode reads found; expected >= 9")
    # tag-local mode constants are never assigned from the environment
    for c in repo.all_classes():
        if c.qual in tag_mode_classes and c.qual != "liquid.environment.Environment":
            res.ob(c.qual + ".mode")
            v = c.attrs["mode"]
            if not text(v).startswith("Mode."):
                res.add("C03-MODE", c.qual, "tag-mode-not-constant", f"{c.qual}.mode must be a Mode constant, found `{text(v)}`", c.file, c.node.lineno)
    for f in repo.all_functions():
        for n in ast.walk(f.node):
            if isinstance(n, (ast.Assign, ast.AugAssign)):
                tgts = n.targets if isinstance(n, ast.Assign) else [n.target]
                for t in tgts:
                    if isinstance(t, ast.Attribute) and t.attr == "mode":
                        if f.qual == "liquid.environment.Environment.__init__":
                            continue
                        res.ob(f"{f.qual}:mode-store")
                        res.add("C03-MODE", f.qual, "mode-store", f"{f.qual} assigns `{text(t)}`: the tolerance mode may only be set by Environment.__init__", f.file, n.lineno)

    # ---- C03-SWALLOW -------------------------------------------------------
    n_h = 0
    for h in hnd.handlers(repo):
        if not H.may_catch_family(h.classes, "LiquidError"):
            continue
        n_h += 1
        res.ob(h.key)
        if "swallow" not in h.kinds:
            continue
        lq = [c for c in h.classes if H.may_catch_family([c], "LiquidError")]
        key = f"{h.func.qual}|{','.join(lq)}"
        if key in REVIEWED_SWALLOW:
            continue
        res.add(
            "C03-SWALLOW",
            h.func.qual,
            f"except {','.join(lq)}",
            f"{h.func.qual}: `except {', '.join(h.classes)}` swallows a Liquid error without routing it to "
            "env.error — warn mode would not report it",
            h.func.file,
            h.node.lineno,
        )
    if n_h < 15:
        raise AnchorMissing(f"only {n_h} LiquidError-family handlers found")
    res.stats.update(mode_reads=n_reads, liquid_handlers=n_h, tag_classes=n_tags)
    from .c20 import check_error_context

    check_error_context(repo, res, "C03-FORMAT")
    return res


def selftest(repo: Repo):
    from ..selftest import Variant, text_edit

    def v(name, rel, old, new, expect, count=1):
        return lambda: Variant(name, text_edit(repo, rel, old, new, count), expect)

    PARSER = "liquid/parser.py"
    TPL = "liquid/template.py"
    ENV = "liquid/environment.py"
    CTX = "liquid/context.py"
    return [
        v("interrupt-handler-raises", "liquid/template.py", "                    if not partial or block_scope:\n                        self.env.error(\n                            LiquidSyntaxError(f\"unexpected '{err}'\", token=node.token)\n                        )\n                    else:\n                        raise\n", "                    if not partial or block_scope:\n                        raise LiquidSyntaxError(\n                            f\"unexpected '{err}'\", token=node.token\n                        ) from err\n                    raise\n", "C03-ROUTE", count=2),

        v("get_node-reraises", "liquid/tag.py", "            self.env.error(err)\n", "            raise\n", "C03-ROUTE|liquid.tag.Tag.get_node"),
        v("get_node-no-try", "liquid/tag.py", "        try:\n            return self.parse(stream)\n        except LiquidError as err:", "        if True:\n            return self.parse(stream)\n        try:\n            pass\n        except LiquidError as err:", "C03-ROUTE|liquid.tag.Tag.get_node"),
        v("parser-handler-raises", PARSER, "            except LiquidError as err:\n                self.env.error(err, token=stream.current)\n\n            next(stream)\n\n        stream.block_depth -= 1", "            except LiquidError as err:\n                raise\n\n            next(stream)\n\n        stream.block_depth -= 1", "C03-ROUTE|liquid.parser.Parser.parse_block"),
        v("render-handler-narrowed", TPL, "                except LiquidError as err:\n                    # Raise or warn according to the current mode.\n                    self.env.error(err, token=node.token)\n\n    async def", "                except LiquidSyntaxError as err:\n                    # Raise or warn according to the current mode.\n                    self.env.error(err, token=node.token)\n\n    async def", "C03-ROUTE|liquid.template.BoundTemplate.render_with_context"),
        v("env-error-raises-in-warn", ENV, "        if self.mode == Mode.STRICT:\n            raise exc\n", "        if self.mode != Mode.LAX:\n            raise exc\n", "C03-DISPATCH|liquid.environment.Environment.error"),
        v("env-error-warns-in-lax", ENV, "        if self.mode == Mode.WARN:\n            warnings.warn(", "        if self.mode != Mode.STRICT:\n            warnings.warn(", "C03-DISPATCH|liquid.environment.Environment.error"),
        v("ctx-error-always-raises", CTX, "        if self.env.mode == Mode.STRICT:\n            raise exc\n", "        if True:\n            raise exc\n", "C03-DISPATCH|liquid.context.RenderContext.error"),
        v("lax-only-behaviour", "liquid/builtin/expressions/arguments.py", "                if env.mode == Mode.STRICT and tokens.current.kind == TOKEN_WORD:\n                    raise LiquidSyntaxError(", "                if env.mode == Mode.LAX and tokens.current.kind == TOKEN_WORD:\n                    next(tokens)\n                if env.mode == Mode.STRICT and tokens.current.kind == TOKEN_WORD:\n                    raise LiquidSyntaxError(", "C03-MODE"),
        lambda: Variant("strict-guard-with-mode-independent-else-is-silent", text_edit(repo, "liquid/builtin/expressions/loop.py", "                if env.mode == Mode.STRICT and tokens.peek.kind == TOKEN_COMMA:\n                    raise LiquidSyntaxError(\n                        f\"expected 'reversed', 'offset' or 'limit', found {kind}\",\n                        token=tokens.peek,\n                    )\n", "                if env.mode == Mode.STRICT and tokens.peek.kind == TOKEN_COMMA:\n                    raise LiquidSyntaxError(\n                        f\"expected 'reversed', 'offset' or 'limit', found {kind}\",\n                        token=tokens.peek,\n                    )\n                else:\n                    reversed_ = False\n", 1), "", silent=True),  # the else arm runs exactly when the guard does not raise: same behaviour in every mode
        v("new-silent-swallow", "liquid/builtin/output.py", "        return buffer.write(\n            to_liquid_string(self.expression.evaluate(context), context.autoescape)\n        )", "        try:\n            return buffer.write(\n                to_liquid_string(self.expression.evaluate(context), context.autoescape)\n            )\n        except LiquidError:\n            return 0", "C03-SWALLOW"),
        v("tag-mode-from-env", "liquid/builtin/tags/if_tag.py", "        token = stream.eat(TOKEN_TAG)\n        tokens = stream.into_inner(tag=token)\n        condition = BooleanExpression.parse(self.env, tokens)", "        token = stream.eat(TOKEN_TAG)\n        self.mode = self.env.mode\n        tokens = stream.into_inner(tag=token)\n        condition = BooleanExpression.parse(self.env, tokens)", "C03-MODE"),
        v("tag-overrides-get_node", "liquid/builtin/tags/echo_tag.py", "    def parse(self, stream: TokenStream) -> Node:  # noqa: D102", "    def get_node(self, stream):\n        return self.parse(stream)\n\n    def parse(self, stream: TokenStream) -> Node:  # noqa: D102", "overrides-get_node"),
    ]
