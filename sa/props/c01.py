"""C01 — synchronous and asynchronous APIs behave identically (engine SIB).

Rules
  SIB-PAIR   every ``m`` / ``m_async`` pair (methods, module functions, nested defs)
             has identical normal forms, is in delegation form, or is a
             reviewed-equivalence row whose normalised diff digest still matches.
  SIB-ORPHAN every ``*_async`` function has a sync sibling in the same scope.
  SIB-MRO    for every concrete class, ``m`` and ``m_async`` are provided by the
             same class of its MRO, or the inherited async member is in delegation
             form (so overriding only one side cannot silently diverge).
  SIB-SYNC-CALLS-ASYNC  a sync member never names an ``*_async`` callee
             (the normaliser would hide it).
  SIB-EXT    no built-in object implements the optional async data protocols
             (``filter_async`` / ``__getitem_async__``) — the two extension points are
             reviewed rows only under that condition.
"""

from __future__ import annotations

import ast
import re

from ..core import Result
from ..engines import sib
from ..model import AnchorMissing, Repo, walk_no_nested

PID = "C01"
MIN_OBLIGATIONS = 150  # 79 pairs (+ MRO instances) confirmed by hand on the pinned tree
MIN_PAIRS = 75

# Reviewed-equivalence rows: the syntactic comparison is stricter than the property
# here and the code is right.  A row suppresses exactly one normalised diff (by
# digest); any further edit to either sibling re-opens the pair.
REVIEWED: dict[str, tuple[str, str]] = {
    # qual of async member: (digest, reason)
    "liquid.context.RenderContext.get_item_async": (
        "89e8e0d6227d842c",
        "extension point: the only difference is the __getitem_async__ probe on the data "
        "object; for data without that protocol (SIB-EXT) the helper is obj[key]",
    ),
    "liquid.template.BoundTemplate.is_up_to_date_async": (
        "c4f5cee8b66e8b6f",
        "awaits an awaitable uptodate and skips the is-bool check, which only a misbehaving "
        "custom loader can trip; built-in loaders return bool (or a coroutine of bool). The sync "
        "member cannot await: for a coroutine uptodate (a template cached by an async request) it "
        "answers 'stale', which only makes the caching loader load the template again — same "
        "template, same source (re-reviewed after fix d9796dc)",
    ),
    "liquid.builtin.expressions.filtered.Filter.evaluate_async": (
        "cc39c18e1ea7dd42",
        "extension point: filter_async is used only when the filter object defines it; no "
        "built-in or extra filter does (SIB-EXT)",
    ),
    "liquid.builtin.tags.if_tag.IfNode.render_to_output_async": (
        "5d07df00bffdfa41",
        "elsif: async renders the ConditionalBlockNode (re-checks disabled tags on an 'elsif' "
        "token, re-evaluates the same condition on the same data) instead of its block directly; "
        "'elsif' is never a disabled tag and conditions are effect-free on JSON-like data",
    ),
    "liquid.extra.tags.macro_tag.CallNode.render_to_output_async": (
        "474f8fcae00078ed",
        "is_undefined(x) is isinstance(x, Undefined); the extra assert holds because only "
        "MacroNode stores into tag_namespace['macros'] and it stores Macro instances",
    ),
}


def _sigs(repo: Repo) -> dict[str, list[str]]:
    """method name -> positional parameter names, when unanimous across the repo."""
    seen: dict[str, set[tuple]] = {}
    for f in repo.all_functions():
        if f.cls is None:
            continue
        a = f.node.args
        names = tuple(x.arg for x in a.posonlyargs + a.args)
        if names and names[0] in ("self", "cls"):
            names = names[1:]
        if a.vararg is not None:
            names = names + ("*",)
        seen.setdefault(sib.strip_async_name(f.name), set()).add(names)
    out = {}
    for name, sigset in seen.items():
        if len(sigset) == 1:
            (names,) = sigset
            if "*" not in names and names:
                out[name] = list(names)
    return out


def pairs(repo: Repo):
    """Yield (async FuncInfo-like, sync node or None, scope description)."""
    for f in repo.all_functions():
        if f.name.endswith("_async"):
            base = f.name[: -len("_async")]
            owner = f.cls.methods if f.cls else f.module.functions
            yield f, owner.get(base)


def _string_literal_axiom_holds(repo: Repo) -> bool:
    """side condition of the reviewed axiom below: StringLiteral.evaluate returns ``self.value`` or
    ``Markup(self.value)`` and nothing else"""
    try:
        ev = repo.own_method("liquid.builtin.expressions.primitive.StringLiteral", "evaluate")
    except Exception:  # noqa: BLE001
        return False
    rets = [r.value for r in ast.walk(ev.node) if isinstance(r, ast.Return) and r.value is not None]
    ok = {"self.value", "Markup(self.value)"}
    return bool(rets) and all(ast.unparse(r) in ok for r in rets)


class _ReviewedAxioms(ast.NodeTransformer):
    """Two reviewed equivalences, applied to both twins before they are compared (they replace a
    digest-pinned row: an edit elsewhere in the pair no longer re-opens them, and nothing else is
    forgiven):

      A1  inside a branch entered under ``isinstance(X, StringLiteral)``, ``X.evaluate(context)`` is
          ``X.value`` — equal as ``str`` (``Markup`` subclasses ``str``; compares, hashes and converts
          with ``to_int`` identically; the one observable difference is the class name in an error
          message under autoescape).  Side condition machine-checked: StringLiteral.evaluate
          returns ``self.value`` / ``Markup(self.value)`` only.
      A2  the two arms ``if X is None: A elif isinstance(X, T): B`` of one chain are disjoint and their
          tests effect-free: written in the order ``is None`` first."""

    def __init__(self, a1: bool):
        self.a1 = a1
        self.lits: list[str] = []

    def visit_If(self, n: ast.If):
        t = n.test
        lit = None
        if self.a1 and isinstance(t, ast.Call) and isinstance(t.func, ast.Name) and t.func.id == "isinstance" and len(t.args) == 2 and ast.unparse(t.args[1]) == "StringLiteral":
            lit = ast.unparse(t.args[0])
        n.test = self.visit(n.test)
        if lit:
            self.lits.append(lit)
        n.body = [self.visit(x) for x in n.body]
        if lit:
            self.lits.pop()
        n.orelse = [self.visit(x) for x in n.orelse]
        # A2
        if len(n.orelse) == 1 and isinstance(n.orelse[0], ast.If):
            m = n.orelse[0]

            def none_test(e):
                return ast.unparse(e.left) if isinstance(e, ast.Compare) and len(e.ops) == 1 and isinstance(e.ops[0], ast.Is) and isinstance(e.comparators[0], ast.Constant) and e.comparators[0].value is None else None

            def inst_test(e):
                return ast.unparse(e.args[0]) if isinstance(e, ast.Call) and isinstance(e.func, ast.Name) and e.func.id == "isinstance" and len(e.args) == 2 else None

            if inst_test(n.test) is not None and inst_test(n.test) == none_test(m.test):
                n.test, m.test = m.test, n.test
                n.body, m.body = m.body, n.body
        return n

    def visit_Call(self, n: ast.Call):
        self.generic_visit(n)
        if self.lits and isinstance(n.func, ast.Attribute) and n.func.attr in ("evaluate", "evaluate_async") and ast.unparse(n.func.value) in self.lits:
            return ast.copy_location(ast.Attribute(value=n.func.value, attr="value", ctx=ast.Load()), n)
        return n

    def visit_Await(self, n: ast.Await):
        self.generic_visit(n)
        if isinstance(n.value, ast.Attribute) and n.value.attr == "value" and ast.unparse(n.value.value) in self.lits:
            return n.value
        return n


def _is_extension_wrapper(fn_node) -> bool:
    import copy as _copy

    n = _copy.deepcopy(fn_node)
    wrapper = ast.Module(body=[n], type_ignores=[])
    holder = ast.FunctionDef(name="_h", args=ast.arguments(posonlyargs=[], args=[], kwonlyargs=[], kw_defaults=[], defaults=[]), body=[n, ast.Pass()], decorator_list=[], lineno=1, col_offset=0)
    sib._drop_extension_points(n)
    body = [x for x in n.body if not (isinstance(x, ast.Expr) and isinstance(x.value, ast.Constant))]
    if not (n.name.startswith("_") and len(body) == 1 and isinstance(body[0], ast.Return) and body[0].value is not None):
        return False
    params = {a.arg for a in n.args.args}
    free = {x.id for x in ast.walk(body[0].value) if isinstance(x, ast.Name)} - params
    return not free and not any(isinstance(x, ast.Await) for x in ast.walk(body[0].value))


def _hoist_module_helpers(fn_node, module) -> None:
    """private module-level helpers called by name become nested defs of the function, so that the
    normaliser treats them exactly like the nested helpers it already inlines"""
    import copy as _copy

    if module is None:
        return
    nested = {st.name for st in fn_node.body if isinstance(st, (ast.FunctionDef, ast.AsyncFunctionDef))}
    add = []
    for c in ast.walk(fn_node):
        if isinstance(c, ast.Call) and isinstance(c.func, ast.Name) and c.func.id.startswith("_") and c.func.id in module.functions and c.func.id not in nested:
            h = module.functions[c.func.id].node
            if _is_extension_wrapper(h):
                nested.add(c.func.id)
                add.append(_copy.deepcopy(h))
    doc = 1 if fn_node.body and isinstance(fn_node.body[0], ast.Expr) and isinstance(fn_node.body[0].value, ast.Constant) else 0
    fn_node.body[doc:doc] = add


def compare(repo: Repo, sigs, s_node, a_node, module=None):
    import copy as _copy

    gen_s, gen_a = sib.is_generator(s_node), sib.is_generator(a_node)
    gen_pair = gen_s != gen_a
    a1 = _string_literal_axiom_holds(repo)
    s_node = _ReviewedAxioms(a1).visit(_copy.deepcopy(s_node))
    a_node = _ReviewedAxioms(a1).visit(_copy.deepcopy(a_node))
    _hoist_module_helpers(s_node, module)
    _hoist_module_helpers(a_node, module)
    ast.fix_missing_locations(s_node)
    ast.fix_missing_locations(a_node)
    ns = sib.dump(sib.normal_form(s_node, gen_pair, sigs))
    na = sib.dump(sib.normal_form(a_node, gen_pair, sigs))
    return ns, na


def run(repo: Repo) -> Result:
    res = Result(PID)
    res.rules = ["SIB-PAIR", "SIB-ORPHAN", "SIB-MRO", "SIB-SYNC-CALLS-ASYNC", "SIB-EXT"]
    res.explanation = (
        "sync/async sibling equivalence decided on normal forms of the two ASTs "
        "(await/async/_async erased, locals alpha-renamed, keywords canonical); "
        "identical normal forms + all callees shared or themselves verified pairs "
        "=> same result/exception for every input (induction on call depth)"
    )
    res.assumptions = [
        "single task: no other coroutine mutates shared state between awaits",
        "render data does not implement the optional async protocols "
        "(__getitem_async__, filter_async) — 'JSON-like data' in the property",
        "shared (non-paired) callees behave the same from both siblings",
        "reviewed-equivalence rows (listed in sa/props/c01.py) were judged by reading",
    ]
    sigs = _sigs(repo)
    n_pairs = n_same = n_deleg = n_reviewed = 0
    for a, s in pairs(repo):
        construct = a.qual
        res.ob(construct)
        if s is None and _is_extension_wrapper(a.node):
            # a private async helper that, with the optional async data protocols absent
            # (SIB-EXT), is just `return <expression over its parameters>`: its sync counterpart
            # is that expression, written in place by the sync twin of its caller — compared
            # there, after inlining (see `compare`)
            res.sample({"pair": a.qual, "verdict": "extension-point wrapper; inlined into its callers"})
            continue
        if s is None:
            res.add(
                "SIB-ORPHAN",
                construct,
                "no-sync-sibling",
                f"{a.qual} has no sync sibling {a.name[:-6]} in the same scope",
                a.file,
                a.line,
            )
            continue
        n_pairs += 1
        if not a.is_async:
            res.add("SIB-PAIR", construct, "not-async", f"{a.qual} is not an async def", a.file, a.line)
            continue
        # sync member must not name async callees
        for n in ast.walk(s.node):
            nm = n.attr if isinstance(n, ast.Attribute) else (n.id if isinstance(n, ast.Name) else None)
            if nm and (nm.endswith("_async") or nm == "__getitem_async__"):
                res.add(
                    "SIB-SYNC-CALLS-ASYNC",
                    s.qual,
                    nm,
                    f"sync member {s.qual} refers to async name {nm}",
                    s.file,
                    getattr(n, "lineno", s.line),
                )
        if sib.is_delegation(a.node, s.name):
            n_deleg += 1
            res.sample({"pair": a.qual, "verdict": "delegation form"})
            continue
        ns, na = compare(repo, sigs, s.node, a.node, module=a.module)
        if ns == na:
            n_same += 1
            res.sample({"pair": a.qual, "verdict": "identical normal forms", "nf_digest": sib.digest(ns)})
            continue
        # the async member runs the sync one in an executor (or calls it through the class):
        # after normalisation its body is `return <self|cls|Class>.<sync>(<its own parameters>)`
        try:
            na_tree = ast.parse(na).body[0]
            if sib.is_delegation(na_tree, s.name, owners={"self", "cls"} | ({a.cls.name} if a.cls else set())):
                n_deleg += 1
                res.sample({"pair": a.qual, "verdict": "delegation form (after normalisation)"})
                continue
        except SyntaxError:
            pass
        d = sib.diff(ns, na)
        # digest of the changed lines only, with the numbering of alpha-renamed locals blanked and
        # order ignored: an edit made identically to both twins (a shared helper, a new local
        # before the differing statement) does not re-open a reviewed row; an edit to the
        # differing statements does
        dg = sib.digest("\n".join(sorted(re.sub(r"\bv\d+\b", "v", l).strip() for l in d if l[:1] in "+-" and l[:3] not in ("+++", "---"))))
        row = REVIEWED.get(a.qual)
        if row and row[0] == dg:
            n_reviewed += 1
            continue
        res.add(
            "SIB-PAIR",
            construct,
            f"diff:{dg}",
            f"{s.qual} and {a.qual} differ after normalisation"
            + (" (a reviewed-equivalence row exists but its digest no longer matches)" if row else ""),
            a.file,
            a.line,
            witness=d[:60],
        )
    if n_pairs < MIN_PAIRS:
        raise AnchorMissing(f"only {n_pairs} sync/async pairs found, expected >= {MIN_PAIRS}")

    # nested async defs inside paired functions are compared as part of the parent.
    # SIB-MRO
    n_mro = 0
    for c in repo.all_classes():
        mro = repo.mro_classes(c)
        names = set()
        for k in mro:
            for m in k.methods:
                if m.endswith("_async"):
                    names.add(m)
        for am in sorted(names):
            sm = am[: -len("_async")]
            ao = next((k for k in mro if am in k.methods), None)
            so = next((k for k in mro if sm in k.methods), None)
            if so is None or ao is None:
                continue
            n_mro += 1
            res.ob(f"{c.qual}:{sm}")
            if so.qual == ao.qual:
                continue
            afn = ao.methods[am]
            if sib.is_delegation(afn.node, sm):
                continue
            # sync is provided by a *more derived* class than async (or vice versa):
            res.add(
                "SIB-MRO",
                c.qual,
                f"{sm}:{so.name}/{am}:{ao.name}",
                f"class {c.qual} takes {sm} from {so.qual} but {am} from {ao.qual} "
                "(not a delegating default): the two APIs run different code",
                c.file,
                c.node.lineno,
            )
    # SIB-EXT
    for c in repo.all_classes():
        for nm in ("filter_async", "__getitem_async__"):
            if nm in c.methods:
                res.ob(f"{c.qual}.{nm}")
                res.add(
                    "SIB-EXT",
                    c.qual,
                    nm,
                    f"built-in class {c.qual} implements the optional async protocol {nm}; "
                    "it must be proven equal to its sync counterpart",
                    c.file,
                    c.methods[nm].line,
                )
    res.ob("SIB-EXT:scan")
    res.stats.update(
        pairs=n_pairs,
        identical=n_same,
        delegation=n_deleg,
        reviewed_equivalent=n_reviewed,
        mro_instances=n_mro,
        canonical_signatures=len(sigs),
        modules=len(repo.modules),
    )
    return res


# ---------------------------------------------------------------------------
# self-test (thorough tier)


def selftest(repo: Repo):
    """AST-computed single edits of one sibling that must be reported, plus
    behaviour-preserving edits that must stay silent."""
    from ..selftest import Variant, ast_edit, find_func, Inapplicable

    out = []
    sigs = _sigs(repo)
    for a, s in pairs(repo):
        if s is None or sib.is_delegation(a.node, s.name):
            continue
        cls = a.cls.name if a.cls else None
        rel = a.file

        def mk(kind, a=a, cls=cls, rel=rel):
            def edit(tree):
                fn = find_func(tree, cls, a.name)
                if fn is None:
                    return False
                body = fn.body
                if kind == "delete-stmt":
                    # delete the first statement that is not a docstring/return/nested def
                    for i, st in enumerate(body):
                        if isinstance(st, (ast.Assign, ast.AugAssign, ast.Expr, ast.If, ast.For, ast.With, ast.Try)) and not (
                            isinstance(st, ast.Expr) and isinstance(st.value, ast.Constant)
                        ):
                            # keep it compiling: replace by pass
                            body[i] = ast.Pass()
                            return True
                    return False
                if kind == "swap-args":
                    for n in ast.walk(fn):
                        if isinstance(n, ast.Call) and len(n.args) >= 2 and not any(
                            isinstance(x, ast.Starred) for x in n.args[:2]
                        ) and ast.dump(n.args[0]) != ast.dump(n.args[1]):
                            n.args[0], n.args[1] = n.args[1], n.args[0]
                            return True
                    return False
                if kind == "rename-attr":
                    for n in ast.walk(fn):
                        if isinstance(n, ast.Attribute) and isinstance(n.ctx, ast.Load) and n.attr not in ("env",):
                            n.attr = n.attr + "_x"
                            return True
                    return False
                if kind == "rename-local":  # silent
                    names = [
                        n.id for n in ast.walk(fn) if isinstance(n, ast.Name) and isinstance(n.ctx, ast.Store)
                    ]
                    params = {x.arg for x in fn.args.args + fn.args.kwonlyargs}
                    names = [n for n in names if n not in params]
                    if not names:
                        return False
                    old = names[0]
                    for n in ast.walk(fn):
                        if isinstance(n, ast.Name) and n.id == old:
                            n.id = old + "_renamed"
                    return True
                return False

            def make():
                ov = ast_edit(repo, rel, edit)
                return Variant(
                    name=f"{kind}:{a.qual}",
                    overlay=ov,
                    expect=a.qual if kind != "rename-local" else "",
                    silent=(kind == "rename-local"),
                )

            return make

        for kind in ("delete-stmt", "swap-args", "rename-attr"):
            out.append(mk(kind))
        if len(out) % 7 == 0:
            out.append(mk("rename-local"))

    # SIB-MRO: a subclass overriding only the sync member of a real pair
    def mro_variant():
        def edit(tree):
            for n in ast.walk(tree):
                if isinstance(n, ast.ClassDef) and n.name == "FutureContext":
                    n.body.append(
                        ast.parse(
                            "def get_template(self, name):\n    return self.env.get_template(name.lower())\n"
                        ).body[0]
                    )
                    return True
            return False

        return Variant("mro:sync-only-override", ast_edit(repo, "liquid/context.py", edit), "SIB-MRO|liquid.context.FutureContext")

    out.append(mro_variant)

    # SIB-ORPHAN: a new async method with no sync sibling
    def orphan_variant():
        def edit(tree):
            for n in ast.walk(tree):
                if isinstance(n, ast.ClassDef) and n.name == "RenderContext":
                    n.body.append(ast.parse("async def frob_async(self):\n    return 1\n").body[0])
                    return True
            return False

        return Variant("orphan:async-without-sync", ast_edit(repo, "liquid/context.py", edit), "SIB-ORPHAN")

    out.append(orphan_variant)

    # SIB-EXT: a built-in filter class grows filter_async
    def ext_variant():
        def edit(tree):
            for n in ast.walk(tree):
                if isinstance(n, ast.ClassDef) and n.name == "BaseTranslateFilter":
                    n.body.append(
                        ast.parse("async def filter_async(self, left, *a, **k):\n    return left\n").body[0]
                    )
                    return True
            return False

        return Variant("ext:builtin-filter_async", ast_edit(repo, "liquid/extra/filters/translate.py", edit), "SIB-EXT")

    out.append(ext_variant)
    return out
