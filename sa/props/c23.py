"""C23 — caching loaders are transparent (clauses; SIB + FLOW + TBL).

Decided clauses (necessary conditions of the property's sentences):
  C23-SIB      load/load_async and _check_cache/_check_cache_async of the mixin are one
               program modulo await (same name, source and behaviour sync vs async).
  C23-KEY      in load*, the value of ``self.cache_key(name, context, kwargs)`` is what is
               passed as ``cache_key`` to ``_check_cache*`` and the requested ``name`` (not the
               key) is what reaches ``super().load*`` together with globals/context/kwargs.
  C23-STORE    ``_check_cache*`` reads and writes ``self.cache`` only under its ``cache_key``
               parameter, stores exactly what ``load_func()`` returned and returns that, or
               returns the object it read; ``is_up_to_date*`` is consulted iff
               ``self.auto_reload``; request globals are applied to a cache hit.
  C23-NS       ``cache_key`` returns the bare name or a string built from *both* the
               namespace value and the name; keyword argument takes priority over context.
  C23-MRO      every ``Caching*`` loader takes load/load_async from the mixin (mixin first).
  C23-UPTODATE every kind of ``uptodate`` callable that a built-in loader with a caching
               subclass can store is accepted by the *sync* ``is_up_to_date`` and by the async
               one (interleaved sync/async requests hit the same cached template).
  C23-FRESH    ("a changed source is picked up on the next request when auto-reload is on") every
               freshness callable that a loader hands out with a template source answers by
               *equality* of the recorded modification time and the file's current one — an
               ordering test (``<=``) misses a source replaced by an older file (restore, rsync
               -t, deploy preserving mtimes); and the recorded value is the one read together
               with the source.

Not decided: LRU interplay and reload timing over request histories (value level).
"""

from __future__ import annotations

import ast

from ..astutil import call_recv, bind_args, callee_name, calls, is_name, is_self_attr, text, unwrap_await
from ..core import Result
from ..model import AnchorMissing, Repo, walk_no_nested
from . import c01

PID = "C23"
MIN_OBLIGATIONS = 20
MIXIN = "liquid.builtin.loaders.mixins.CachingLoaderMixin"


def check_namespace_key(repo: Repo, res: Result, rule: str = "C23-NS") -> None:
    """``CachingLoaderMixin.cache_key`` returns the bare name only when no namespace applies and
    otherwise a string built from both the namespace *value as found* (presence, not truthiness)
    and the name; the keyword argument wins over the context.  Shared with C17: the template cache
    is a memo, and a key that loses a component makes the output depend on render history."""
    ck_fn = repo.own_method(MIXIN, "cache_key")
    # --- C23-NS --------------------------------------------------------------
    from ..guards import canon as _canonK
    from ..guards import conditions as _condsK

    node = ck_fn.node
    res.ob(ck_fn.qual, 3)
    ps = [p_ for p_ in ck_fn.params() if p_ != "self"]
    if len(ps) < 3:
        raise AnchorMissing("CachingLoaderMixin.cache_key no longer takes (name, context, args)")
    p_name, p_ctx, p_args = ps[:3]
    mixin = repo.cls(MIXIN)

    def builder_source(e, name_expr: str):
        """S when e is f"{S[self.namespace_key]}/{<name>}" (namespace value as found, then the name)"""
        if isinstance(e, ast.JoinedStr):
            fv = [x.value for x in e.values if isinstance(x, ast.FormattedValue)]
            ns_src = [x for x in fv if isinstance(x, ast.Subscript) and is_self_attr(x.slice, "namespace_key")]
            if len(fv) == 2 and len(ns_src) == 1 and any(text(x) == name_expr for x in fv):
                return text(ns_src[0].value)
        return None

    def helper_params(mname: str):
        """(name parameter, scope parameter) of a private method whose every return is the key built
        from its scope parameter and its name parameter, or None (= no namespace there)"""
        h = mixin.methods.get(mname)
        if h is None or not mname.startswith("_"):
            return None
        hp = [p_ for p_ in h.params() if p_ != "self"]
        if len(hp) != 2:
            return None
        rets_h = [r.value for r in ast.walk(h.node) if isinstance(r, ast.Return)]
        built = 0
        for r in rets_h:
            if r is None or (isinstance(r, ast.Constant) and r.value is None):
                continue
            for a_, b_ in ((hp[0], hp[1]), (hp[1], hp[0])):
                if builder_source(r, a_) == b_:
                    built += 1
                    order = (a_, b_)
                    break
            else:
                return None
        return order if built else None

    # namespace sources in the order they are tried (source order of the builder expressions and
    # helper calls in the function)
    tried: list[tuple[int, str]] = []
    helper_vars: set[str] = set()
    for n in ast.walk(node):
        src = builder_source(n, p_name)
        if src is not None:
            tried.append((n.lineno, src))
        if isinstance(n, ast.Call) and is_self_attr(n.func) and len(n.args) == 2 and not n.keywords:
            hp = helper_params(n.func.attr)
            if hp is not None:
                h = mixin.methods[n.func.attr]
                hps = [p_ for p_ in h.params() if p_ != "self"]
                bound = dict(zip(hps, n.args))
                if text(bound[hp[0]]) == p_name:
                    tried.append((n.lineno, text(bound[hp[1]])))
    for st in ast.walk(node):
        if isinstance(st, ast.Assign) and len(st.targets) == 1 and isinstance(st.targets[0], ast.Name) and isinstance(st.value, ast.Call) and is_self_attr(st.value.func) and helper_params(st.value.func.attr) is not None:
            helper_vars.add(st.targets[0].id)
    srcs = [s_ for _ln, s_ in sorted(tried)]

    def ret_ok(v) -> bool:
        if is_name(v, p_name) or builder_source(v, p_name) is not None:
            return True
        if isinstance(v, ast.Name) and v.id in helper_vars:
            return True
        if isinstance(v, ast.Call) and is_self_attr(v.func) and helper_params(v.func.attr) is not None:
            return True
        if isinstance(v, ast.IfExp):
            return ret_ok(v.body) and ret_ok(v.orelse)
        if isinstance(v, ast.BoolOp) and isinstance(v.op, ast.Or):
            return all(ret_ok(x) for x in v.values)
        return False

    rets = [st for st in walk_no_nested(node) if isinstance(st, ast.Return)]
    for r in rets:
        if not ret_ok(r.value):
            res.add(rule, ck_fn.qual, f"return:{text(r.value)}", f"cache_key returns `{text(r.value)}`: neither the bare name nor a string of namespace value and name", ck_fn.file, r.lineno)
    if srcs[:2] != [p_args, f"{p_ctx}.globals"]:
        res.add(rule, ck_fn.qual, "priority", f"cache_key must try the keyword argument before context globals; found sources {srcs}", ck_fn.file, ck_fn.line)
    # without a configured namespace_key the key is the bare name, and nothing else is tried then
    no_ns = _canonK(ast.parse("not self.namespace_key", mode="eval").body)
    has_ns = _canonK(ast.parse("self.namespace_key", mode="eval").body)
    bare_ok = False
    others_ok = True
    for st, cs in _condsK(node):
        if not isinstance(st, ast.Return):
            continue
        cc = {_canonK(c) for c in cs}
        if no_ns in cc:
            bare_ok = bare_ok or is_name(st.value, p_name)
            if not is_name(st.value, p_name):
                others_ok = False
        elif has_ns not in cc:
            others_ok = False
    if not (bare_ok and others_ok):
        res.add(rule, ck_fn.qual, "no-namespace", "cache_key must return the bare name when no namespace_key is configured", ck_fn.file, ck_fn.line)


def run(repo: Repo) -> Result:
    res = Result(PID)
    res.rules = ["C23-SIB", "C23-KEY", "C23-STORE", "C23-NS", "C23-MRO", "C23-UPTODATE", "C23-FRESH"]
    res.explanation = (
        "clauses of cache transparency decided on the AST of CachingLoaderMixin and the "
        "loader classes: sibling equivalence, key/name plumbing by parameter binding, "
        "store/return discipline of _check_cache*, namespace key construction, MRO, and "
        "compatibility of stored uptodate callables with the sync and async freshness checks"
    )
    res.assumptions = [
        "LRU order / reload timing over histories is not decided (value level)",
        "the wrapped loader's own get_source is covered by C01/C22",
    ]
    mixin = repo.cls(MIXIN)
    sigs = c01._sigs(repo)

    # --- C23-SIB -----------------------------------------------------------
    for am, sm in (("load_async", "load"), ("_check_cache_async", "_check_cache")):
        a, s = repo.own_method(MIXIN, am), repo.own_method(MIXIN, sm)
        res.ob(a.qual)
        ns, na = c01.compare(repo, sigs, s.node, a.node)
        if ns != na:
            d = c01.sib.diff(ns, na)
            res.add(
                "C23-SIB",
                a.qual,
                "diff",
                f"{s.qual} and {a.qual} differ after normalisation",
                a.file,
                a.line,
                witness=d[:40],
            )

    # --- C23-KEY -----------------------------------------------------------
    ck_fn = repo.own_method(MIXIN, "cache_key")
    for lm, cm in (("load", "_check_cache"), ("load_async", "_check_cache_async")):
        fn = repo.own_method(MIXIN, lm)
        chk = repo.own_method(MIXIN, cm)
        res.ob(fn.qual, 3)
        node = fn.node
        params = fn.params()
        # where does the cache key come from?
        key_calls = [c for c in calls(node) if callee_name(c) == "cache_key" and is_self_attr(c.func)]
        chk_calls = [c for c in calls(node) if callee_name(c) == cm and is_self_attr(c.func)]
        if len(key_calls) != 1 or len(chk_calls) != 1:
            res.add("C23-KEY", fn.qual, "shape", f"{fn.qual}: expected exactly one self.cache_key(...) and one self.{cm}(...) call", fn.file, fn.line)
            continue
        kb = bind_args(key_calls[0], ck_fn.node)
        ok = kb and is_name(kb.get("name"), "name") and is_name(kb.get("context"), "context") and is_name(kb.get("args"), "kwargs")
        if not ok:
            res.add("C23-KEY", fn.qual, "cache_key-args", f"{fn.qual}: cache_key must be computed from (name, context, kwargs); got {text(key_calls[0])}", fn.file, key_calls[0].lineno)
        # local variable holding the key
        key_vars = set()
        for st in walk_no_nested(node):
            if isinstance(st, ast.Assign) and unwrap_await(st.value) is key_calls[0]:
                for t in st.targets:
                    if isinstance(t, ast.Name):
                        key_vars.add(t.id)
        cb = bind_args(chk_calls[0], chk.node)
        if cb is None:
            res.add("C23-KEY", fn.qual, "check-args", f"{fn.qual}: cannot bind arguments of {text(chk_calls[0])}", fn.file, fn.line)
            continue
        karg = cb.get("cache_key")
        if not (karg is key_calls[0] or (isinstance(karg, ast.Name) and karg.id in key_vars)):
            res.add(
                "C23-KEY",
                fn.qual,
                "cache_key-param",
                f"{fn.qual}: the cache_key argument of {cm} is `{text(karg) if karg is not None else None}`, "
                "not the value of self.cache_key(name, context, kwargs)",
                fn.file,
                chk_calls[0].lineno,
            )
        if not is_name(cb.get("globals"), "globals"):
            res.add("C23-KEY", fn.qual, "globals-param", f"{fn.qual}: request globals are not passed to {cm}", fn.file, chk_calls[0].lineno)
        lf = cb.get("load_func")
        good = False
        if isinstance(lf, ast.Call) and callee_name(lf) == "partial" and lf.args:
            target = lf.args[0]
            want = "load" if lm == "load" else "load_async"
            tgt_ok = (
                isinstance(target, ast.Attribute)
                and target.attr == want
                and isinstance(target.value, ast.Call)
                and callee_name(target.value) == "super"
            )
            rest = lf.args[1:]
            kws = {k.arg: k.value for k in lf.keywords}
            good = (
                tgt_ok
                and len(rest) == 2
                and is_name(rest[0], "env")
                and is_name(rest[1], "name")
                and is_name(kws.get("globals"), "globals")
                and is_name(kws.get("context"), "context")
                and is_name(kws.get(None), "kwargs")
            )
        if not good:
            res.add(
                "C23-KEY",
                fn.qual,
                "load_func",
                f"{fn.qual}: load_func must be partial(super().{lm}, env, name, globals=globals, "
                f"context=context, **kwargs); got `{text(lf) if lf is not None else None}`",
                fn.file,
                chk_calls[0].lineno,
            )
        res.sample({"rule": "C23-KEY", "function": fn.qual, "check_call": text(chk_calls[0])[:160]})

    # --- C23-STORE ---------------------------------------------------------
    from ..normalize import nfunc

    for cm in ("_check_cache", "_check_cache_async"):
        # private helpers (`self._store(key, template)`, `self._reuse(cached, globals)`) are inlined:
        # their argument `load_func()` is bound to a fresh local first, so the statements read as
        # `template = load_func(); self.cache[cache_key] = template; return template` again
        fn = nfunc(repo, repo.own_method(MIXIN, cm), aliases=False)
        node = fn.node
        res.ob(fn.qual, 5)
        # -- read through facts, not layout ---------------------------------------------------
        from ..flow import MustFlow as _MF23
        from ..guards import canon as _canon23
        from ..guards import conditions as _conds23

        mixin_cls = repo.cls(MIXIN)

        def read_helper(name: str):
            """a private method whose every return is self.cache[<its parameter>] /
            self.cache.get(<its parameter>...) or None: a cache read under that parameter"""
            h = mixin_cls.methods.get(name)
            if h is None or not name.startswith("_"):
                return None
            ps = [p_ for p_ in h.params() if p_ != "self"]
            rets = [r.value for r in ast.walk(h.node) if isinstance(r, ast.Return)]
            if len(ps) != 1 or not rets:
                return None
            for r in rets:
                if r is None or (isinstance(r, ast.Constant) and r.value is None):
                    continue
                if isinstance(r, ast.Subscript) and is_self_attr(r.value, "cache") and is_name(r.slice, ps[0]):
                    continue
                if isinstance(r, ast.Call) and callee_name(r) == "get" and is_self_attr(call_recv(r), "cache") and r.args and is_name(r.args[0], ps[0]):
                    continue
                return None
            if any(isinstance(t_, ast.Subscript) and isinstance(t_.ctx, ast.Store) for t_ in ast.walk(h.node)):
                return None
            return ps[0]

        def cache_read_key(v):
            """the key expression when v reads the cache, else None"""
            v = unwrap_await(v)
            if isinstance(v, ast.Subscript) and is_self_attr(v.value, "cache"):
                return v.slice
            if isinstance(v, ast.Call) and callee_name(v) == "get" and is_self_attr(call_recv(v), "cache") and v.args:
                return v.args[0]
            if isinstance(v, ast.Call) and is_self_attr(v.func) and read_helper(v.func.attr) is not None and len(v.args) == 1:
                return v.args[0]
            return None

        loaded_vars, read_vars = set(), set()
        for st in walk_no_nested(node):
            if isinstance(st, (ast.Assign, ast.AnnAssign)):
                tg = st.targets[0] if isinstance(st, ast.Assign) and len(st.targets) == 1 else st.target if isinstance(st, ast.AnnAssign) else None
                if not isinstance(tg, ast.Name) or st.value is None:
                    continue
                v = unwrap_await(st.value)
                if isinstance(v, ast.Call) and is_name(v.func, "load_func") and not v.args and not v.keywords:
                    loaded_vars.add(tg.id)
                else:
                    k = cache_read_key(v)
                    if k is not None:
                        read_vars.add(tg.id)
                        if not is_name(k, "cache_key"):
                            res.add("C23-STORE", fn.qual, "read-key", f"{fn.qual}: cache read under `{text(k)}`, not the cache_key parameter", fn.file, st.lineno)
        n_store = 0
        for st in walk_no_nested(node):
            if isinstance(st, ast.Assign):
                for t in st.targets:
                    if isinstance(t, ast.Subscript) and is_self_attr(t.value, "cache"):
                        n_store += 1
                        if not is_name(t.slice, "cache_key"):
                            res.add("C23-STORE", fn.qual, "store-key", f"{fn.qual}: cache write under `{text(t.slice)}`, not the cache_key parameter", fn.file, st.lineno)
                        if not (isinstance(st.value, ast.Name) and st.value.id in loaded_vars):
                            res.add("C23-STORE", fn.qual, "store-value", f"{fn.qual}: stores `{text(st.value)}`, not the result of load_func()", fn.file, st.lineno)
        if n_store < 1:
            res.add("C23-STORE", fn.qual, "store-missing", f"{fn.qual}: the loaded template is never stored", fn.file, fn.line)

        # must-facts at every return: a loaded template was stored, a cached one carries this
        # request's globals
        def gen23(st):
            out = set()
            if isinstance(st, ast.Assign):
                for t in st.targets:
                    if isinstance(t, ast.Subscript) and is_self_attr(t.value, "cache") and isinstance(st.value, ast.Name):
                        out.add(("stored", st.value.id))
                    if isinstance(t, ast.Attribute) and t.attr == "globals" and isinstance(t.value, ast.Name):
                        v = st.value
                        if isinstance(v, ast.BoolOp) and isinstance(v.op, ast.Or) and len(v.values) == 2 and isinstance(v.values[1], ast.Dict) and not v.values[1].keys:
                            v = v.values[0]
                        if is_name(v, "globals"):
                            out.add(("globals", t.value.id))
            return out

        def kill23(st, facts):
            dead = set()
            if isinstance(st, (ast.Assign, ast.AnnAssign)):
                tgs = st.targets if isinstance(st, ast.Assign) else [st.target]
                for t in tgs:
                    if isinstance(t, ast.Name):
                        dead |= {f_ for f_ in facts if f_[1] == t.id}
            return dead

        at_return: dict[int, frozenset] = {}

        def visit23(n_, st_):
            if isinstance(n_, ast.Return):
                at_return[id(n_)] = st_

        _MF23(gen=gen23, kill=kill23, visit=visit23).run(node)
        up_name = "is_up_to_date" if cm == "_check_cache" else "is_up_to_date_async"
        cond_of = {id(st): cs for st, cs in _conds23(node)}
        n_hit_returns = 0
        for st in walk_no_nested(node):
            if not isinstance(st, ast.Return):
                continue
            v = st.value
            if not (isinstance(v, ast.Name) and v.id in (loaded_vars | read_vars)):
                res.add("C23-STORE", fn.qual, "return", f"{fn.qual}: returns `{text(v) if v else None}` — neither the freshly loaded nor the cached template", fn.file, st.lineno)
                continue
            facts = at_return.get(id(st), frozenset())
            if v.id in loaded_vars and v.id not in read_vars:
                if ("stored", v.id) not in facts:
                    res.add("C23-STORE", fn.qual, "return-unstored", f"{fn.qual}: returns a freshly loaded template without storing it", fn.file, st.lineno)
                continue
            # a cached template: returned only where it is not stale ...
            n_hit_returns += 1
            cs = cond_of.get(id(st), [])

            def strip_await(e):
                e2 = ast.parse(text(e), mode="eval").body
                class _U(ast.NodeTransformer):
                    def visit_Await(self, n2):
                        return self.visit(n2.value)
                return _U().visit(e2)

            cc = {_canon23(strip_await(c)) for c in cs}
            fresh_gate = _canon23(ast.parse(f"not (self.auto_reload and not {v.id}.{up_name}())", mode="eval").body)
            alt = {_canon23(ast.parse(f"not self.auto_reload or {v.id}.{up_name}()", mode="eval").body)}
            if fresh_gate not in cc and not (cc & alt):
                res.add("C23-STORE", fn.qual, "auto_reload-gate", f"{fn.qual}: a cache hit must be reloaded iff `self.auto_reload and not cached.{up_name}()`", fn.file, st.lineno)
            # ... and with exactly this request's globals
            if ("globals", v.id) not in facts:
                res.add("C23-STORE", fn.qual, "globals-on-hit", f"{fn.qual}: a cache hit must carry exactly the globals of this request (`cached.globals = globals or {{}}` on every path before returning it)", fn.file, st.lineno)
        if n_hit_returns == 0:
            res.add("C23-STORE", fn.qual, "no-hit-return", f"{fn.qual}: never returns the cached template", fn.file, fn.line)
        # the freshness test is consulted only after `self.auto_reload and ...` (short circuit)
        ups = [c for c in calls(node) if callee_name(c).startswith("is_up_to_date")]
        if len(ups) != 1:
            res.add("C23-STORE", fn.qual, "uptodate-count", f"{fn.qual}: expected exactly one freshness test, found {len(ups)}", fn.file, fn.line)
        else:
            guarded_up = False
            for b_ in ast.walk(node):
                if isinstance(b_, ast.BoolOp) and isinstance(b_.op, ast.And):
                    idx_ar = next((i for i, x in enumerate(b_.values) if is_self_attr(x, "auto_reload")), None)
                    idx_up = next((i for i, x in enumerate(b_.values) if any(y is ups[0] for y in ast.walk(x))), None)
                    if idx_ar is not None and idx_up is not None and idx_ar < idx_up:
                        guarded_up = True
            if not guarded_up:
                res.add("C23-STORE", fn.qual, "auto_reload-gate", f"{fn.qual}: the freshness test must be consulted only under `self.auto_reload and ...`", fn.file, ups[0].lineno)
        res.sample({"rule": "C23-STORE", "function": fn.qual, "loaded_vars": sorted(loaded_vars), "read_vars": sorted(read_vars), "stores": n_store})

    check_namespace_key(repo, res)

    # --- C23-MRO -----------------------------------------------------------
    caching = [c for c in repo.subclasses(MIXIN, strict=True)]
    if len(caching) < 3:
        raise AnchorMissing(f"expected >= 3 caching loader classes, found {len(caching)}")
    for c in caching:
        for m in ("load", "load_async"):
            res.ob(f"{c.qual}.{m}")
            owner = repo.find_method(c, m)
            if owner is None or owner.cls.qual != MIXIN:
                res.add("C23-MRO", c.qual, m, f"{c.qual}.{m} resolves to {owner.qual if owner else None}, not the caching mixin", c.file, c.node.lineno)
        for m in ("get_source", "get_source_async"):
            owner = repo.find_method(c, m)
            res.ob(f"{c.qual}.{m}")
            if owner is None or owner.cls.qual in (MIXIN, "liquid.loader.BaseLoader") and m == "get_source":
                res.add("C23-MRO", c.qual, m, f"{c.qual}.{m} has no concrete source", c.file, c.node.lineno)

    # --- C23-UPTODATE ----------------------------------------------------------
    # kinds of uptodate stored by get_source / get_source_async of each wrapped loader
    bt = "liquid.template.BoundTemplate"
    sync_check = repo.own_method(bt, "is_up_to_date")
    async_check = repo.own_method(bt, "is_up_to_date_async")
    sync_handles_awaitable = any(
        isinstance(n, ast.Name) and n.id in ("Awaitable", "iscoroutine", "isawaitable") or isinstance(n, ast.Attribute) and n.attr in ("iscoroutine", "isawaitable", "run")
        for n in ast.walk(sync_check.node)
    )
    # ... and what it does then must be "stale" (`return False` -> the loader loads it again),
    # never "fresh" and never an error
    if sync_handles_awaitable:
        def _aw_test(t) -> bool:
            return isinstance(t, ast.Call) and (callee_name(t) in ("iscoroutine", "isawaitable") or (callee_name(t) == "isinstance" and len(t.args) == 2 and "Awaitable" in text(t.args[1])))

        branches = [n for n in ast.walk(sync_check.node) if isinstance(n, ast.If) and _aw_test(n.test)]
        sync_handles_awaitable = bool(branches) and all(b.body and isinstance(b.body[-1], ast.Return) and isinstance(b.body[-1].value, ast.Constant) and b.body[-1].value.value is False for b in branches)
    async_handles_sync = any(isinstance(n, ast.Name) and n.id == "Awaitable" for n in ast.walk(async_check.node))
    fresh_funcs: dict = {}
    for c in caching:
        for m in ("get_source", "get_source_async"):
            owner = repo.find_method(c, m)
            if owner is None:
                continue
            # follow the delegating default
            if owner.cls.qual == "liquid.loader.BaseLoader" and m == "get_source_async":
                continue
            for call in calls(owner.node):
                if callee_name(call) != "TemplateSource":
                    continue
                up = None
                if len(call.args) >= 3:
                    up = call.args[2]
                for k in call.keywords:
                    if k.arg == "uptodate":
                        up = k.value
                if up is None:
                    continue
                kind = "none"
                if isinstance(up, ast.Constant) and up.value is None:
                    kind = "none"
                elif isinstance(up, ast.Call) and callee_name(up) == "partial" and up.args:
                    tgt = up.args[0]
                    tname = tgt.attr if isinstance(tgt, ast.Attribute) else text(tgt)
                    f = repo.find_method(owner.cls, tname)
                    kind = "async" if (f is not None and f.is_async) else "sync"
                    if f is not None:
                        fresh_funcs[f.qual] = f
                else:
                    kind = "unknown:" + text(up)
                res.ob(f"{c.qual}.{m}:uptodate")
                res.sample({"rule": "C23-UPTODATE", "loader": c.qual, "via": owner.qual, "uptodate_kind": kind})
                if kind == "async" and not sync_handles_awaitable:
                    res.add(
                        "C23-UPTODATE",
                        c.qual,
                        f"{m}:async-uptodate-vs-sync-check",
                        f"{owner.qual} stores a coroutine-function uptodate in a template cached by {c.name}; "
                        "a later synchronous request calls BoundTemplate.is_up_to_date, which rejects the "
                        "coroutine with LiquidError('expected a boolean from uptodate')",
                        owner.file,
                        call.lineno,
                        witness=[
                            "env = Environment(loader=CachingFileSystemLoader(dir)); "
                            "await env.get_template_async('a.liquid'); env.get_template('a.liquid') -> LiquidError"
                        ],
                    )
                if kind == "sync" and not async_handles_sync:
                    res.add("C23-UPTODATE", c.qual, f"{m}:sync-uptodate-vs-async-check", "async freshness check cannot consume a sync uptodate", owner.file, call.lineno)
                if kind.startswith("unknown"):
                    res.add("C23-UPTODATE", c.qual, f"{m}:{kind}", f"{owner.qual}: unrecognised uptodate value", owner.file, call.lineno)
    # --- C23-FRESH -------------------------------------------------------------
    if not fresh_funcs:
        raise AnchorMissing("no freshness callable (partial(self._uptodate*, ...)) found in the file-system loaders")
    extra_fresh: list = []
    work = sorted(fresh_funcs.items())
    while work:
        q, f = work.pop(0)
        if extra_fresh:
            work += [(g.qual, g) for g in extra_fresh]
            extra_fresh.clear()
        res.ob(f"fresh:{q}", 2)
        params = [p for p in f.params() if p not in ("self", "cls")]
        cmps = [n for n in ast.walk(f.node) if isinstance(n, ast.Compare) and any(isinstance(x, ast.Attribute) and x.attr.startswith("st_mtime") for x in ast.walk(n))]
        if not cmps:
            # it may hand the question to a sibling (`run_in_executor(None, Class._uptodate, path,
            # mtime)` / `self._uptodate(path, mtime)`): then that sibling answers, with the same
            # recorded mtime passed through
            deleg = None
            for n in ast.walk(f.node):
                if isinstance(n, ast.Attribute) and f.cls is not None and n.attr in f.cls.methods and n.attr != f.name and isinstance(n.value, ast.Name) and n.value.id in ("self", "cls", f.cls.name):
                    deleg = f.cls.methods[n.attr]
            passes = deleg is not None and all(any(isinstance(x, ast.Name) and x.id == p_ for x in ast.walk(f.node) if isinstance(getattr(x, "ctx", None), ast.Load)) for p_ in params)
            if passes and any(isinstance(n, ast.Compare) and any(isinstance(x, ast.Attribute) and x.attr.startswith("st_mtime") for x in ast.walk(n)) for n in ast.walk(deleg.node)):
                if deleg.qual not in fresh_funcs:
                    fresh_funcs[deleg.qual] = deleg  # judged below / on the next run of the loop
                    extra_fresh.append(deleg)
                continue
            res.add("C23-FRESH", q, "no-mtime-test", f"{q} does not compare the file's current modification time with the recorded one", f.file, f.line)
            continue
        for cmp_ in cmps:
            sides = [cmp_.left] + list(cmp_.comparators)
            recorded = [x for x in sides if isinstance(x, ast.Name) and x.id in params]
            if len(cmp_.ops) != 1 or not isinstance(cmp_.ops[0], ast.Eq):
                res.add("C23-FRESH", q, f"not-equality:{type(cmp_.ops[0]).__name__}", f"{q} answers `{text(cmp_)[:60]}`: freshness must be equality of the recorded and the current modification time — with an ordering test a source replaced by a file with an older mtime is served stale forever although auto_reload is on", f.file, cmp_.lineno)
            elif not recorded:
                res.add("C23-FRESH", q, "not-recorded-mtime", f"{q}: `{text(cmp_)[:60]}` does not involve the modification time recorded when the source was read (parameters {params})", f.file, cmp_.lineno)
    res.stats.update(caching_classes=[c.qual for c in caching], freshness_callables=sorted(fresh_funcs))
    return res


def selftest(repo: Repo):
    from ..selftest import Variant, text_edit

    P = "liquid/builtin/loaders/mixins.py"
    T = "liquid/template.py"

    def v(name, rel, old, new, expect, count=1):
        return lambda: Variant(name, text_edit(repo, rel, old, new, count), expect)

    load_async_swap = (
        "        return await self._check_cache_async(\n            env,\n            cache_key,\n            globals,\n            partial(\n                super().load_async,  # type: ignore\n                env,\n                name,",
        "        return await self._check_cache_async(\n            env,\n            name,\n            globals,\n            partial(\n                super().load_async,  # type: ignore\n                env,\n                cache_key,",
    )
    return [
        v("swap-key-name-async", P, *load_async_swap, "C23-KEY|liquid.builtin.loaders.mixins.CachingLoaderMixin.load_async"),
        v("sync-load-passes-key", P, "                super().load,  # type: ignore\n                env,\n                name,", "                super().load,  # type: ignore\n                env,\n                cache_key,", "C23-KEY"),
        v("sync-check-rejects-coroutine-uptodate", T, "        if inspect.iscoroutine(uptodate):\n            # This template was loaded by an async request and we can't await its\n            # `uptodate` here. Say it's stale, so the caller loads it again.\n            uptodate.close()\n            return False\n", "", "C23-UPTODATE"),
        v("sync-check-says-fresh-for-coroutine-uptodate", T, "            uptodate.close()\n            return False\n", "            uptodate.close()\n            return True\n", "C23-UPTODATE"),
        v("async-freshness-by-ordering", "liquid/builtin/loaders/file_system_loader.py", "            None, lambda: mtime == source_path.stat().st_mtime", "            None, lambda: source_path.stat().st_mtime <= mtime", "C23-FRESH"),
        v("sync-freshness-by-ordering", "liquid/builtin/loaders/file_system_loader.py", "        return mtime == source_path.stat().st_mtime", "        return mtime >= source_path.stat().st_mtime", "C23-FRESH"),
        v("freshness-ignores-recorded-mtime", "liquid/builtin/loaders/file_system_loader.py", "        return mtime == source_path.stat().st_mtime", "        return source_path.stat().st_mtime == source_path.stat().st_mtime", "C23-FRESH"),
        lambda: Variant("freshness-operands-swapped-is-silent", text_edit(repo, "liquid/builtin/loaders/file_system_loader.py", "        return mtime == source_path.stat().st_mtime", "        return source_path.stat().st_mtime == mtime", 1), "C23-", silent=True),
        v("drop-globals-on-hit", P, "        cached_template.globals = globals or {}\n        return cached_template\n\n    async def", "        return cached_template\n\n    async def", "globals-on-hit"),
        v("stale-globals-on-hit", P, "        cached_template.globals = globals or {}\n        return cached_template\n\n    async def", "        if globals:\n            cached_template.globals = globals\n        return cached_template\n\n    async def", "globals-on-hit"),
        v("no-store-on-reload", P, "        if self.auto_reload and not cached_template.is_up_to_date():\n            template = load_func()\n            self.cache[cache_key] = template\n", "        if self.auto_reload and not cached_template.is_up_to_date():\n            template = load_func()\n", "C23-STORE"),
        v("ignore-auto-reload", P, "if self.auto_reload and not await cached_template.is_up_to_date_async():", "if not await cached_template.is_up_to_date_async():", "auto_reload-gate"),
        v("store-under-name", P, "            template = load_func()\n            self.cache[cache_key] = template\n            return template\n\n        if self.auto_reload and not cached_template.is_up_to_date", "            template = load_func()\n            self.cache[template.name] = template\n            return template\n\n        if self.auto_reload and not cached_template.is_up_to_date", "store-key"),
        v("ns-key-drops-name", P, 'return f"{args[self.namespace_key]}/{name}"', 'return f"{args[self.namespace_key]}"', "C23-NS"),
        v("ns-context-before-args", P, "        with suppress(KeyError):\n            return f\"{args[self.namespace_key]}/{name}\"\n", "", "C23-NS"),
        v("ns-key-ignores-namespace", P, "        if not self.namespace_key:\n            return name\n", "        if True:\n            return name\n", "C23-NS"),
        v("mixin-last", "liquid/builtin/loaders/dict_loader.py", "class CachingDictLoader(CachingLoaderMixin, DictLoader):", "class CachingDictLoader(DictLoader, CachingLoaderMixin):", "C23-MRO"),
        v("cache-key-from-name-only", P, "cache_key = self.cache_key(name, context, kwargs)\n        return self._check_cache(", "cache_key = self.cache_key(name, None, kwargs)\n        return self._check_cache(", "cache_key-args"),
    ]
