"""C09 — parsing and rendering always terminate within the stack (clauses).

  C09-PROGRESS every ``while`` loop of the parse-time code (parser, tags' ``parse``, expression
               parsers) makes progress: each path from the loop head back to the loop head
               passes a token-consuming call (``next(stream)``, ``stream.eat*``, or a callee that
               consumes on every normal return) — otherwise the loop spins on one token.
  C09-EOF      every such loop exits when the stream is exhausted: an abstract run of one
               iteration with the current token fixed to end-of-stream (``TokenStream.next``
               stops advancing there) ends in ``break`` / ``return`` / ``raise`` on every path.
  C09-GUARDS   the depth guards have their shape: ``Parser.parse_block`` increments
               ``stream.block_depth`` and raises ``BlockNestingError`` when it exceeds
               ``block_nesting_limit`` before parsing anything; ``RenderContext.extend`` raises
               ``ContextDepthError`` when the scope chain exceeds ``context_depth_limit`` before
               pushing; ``RenderContext.copy`` raises when ``_copy_depth`` exceeds it and hands
               ``_copy_depth + 1`` to every context it builds; the liquid tag carries
               ``block_depth`` into its inner stream.
  C09-CYCLES   every cycle of the resolved call graph contains a depth guard
               (``Parser.parse_block``), or is a structural walk over the finite parsed tree
               (evaluate / render / children / analysis) — and in the render walk every call
               that leaves the current tree (a loaded partial, a macro or block definition
               found at run time) runs under ``context.extend`` / on a ``context.copy`` (the
               depth guards) — or is a reviewed bounded cycle.  Any other cycle is unbounded
               recursion driven by the input.
  C09-BUDGET   worst-case Python frames ``(context_depth_limit + 2) × (block_nesting_limit ×
               frames-per-block-level + frames-per-partial-level)``, computed from the call
               graph and the ``Environment`` defaults, fit CPython's default recursion limit.
  C09-FUNNEL   the handler around ``self._parse(source)`` in ``Environment.from_string`` catches
               RecursionError and raises a LiquidError (stack exhaustion by a deeply nested source
               is reported as a template error, not as a bare RecursionError).
Not decided: regular-expression cost ("promptly"); loops over render data (finite iterables).
"""

from __future__ import annotations

import ast

from ..astutil import call_recv, attr_chain, callee_name, calls, is_name, names_in, text, unwrap_await
from ..callgraph import CallGraph, sccs
from .. import symb
from ..core import Result
from ..flow import MustFlow, join
from ..model import AnchorMissing, FuncInfo, Repo, fold_str, fold_str_set, walk_no_nested

PID = "C09"
MIN_OBLIGATIONS = 60
RECURSION_LIMIT = 1000  # CPython's default sys.getrecursionlimit()
CONSUMERS = {"next", "next_token", "eat", "eat_one_of"}
# callees that consume at least one token on every normal return (derived below, then frozen
# here as the expected set so that a change in one of them is noticed)
STRUCTURAL_NAMES = {
    "evaluate", "evaluate_async", "evaluate_args", "evaluate_args_async", "render", "render_async",
    "render_to_output", "render_to_output_async", "render_with_context", "render_with_context_async",
    "children", "children_async", "location", "get_source", "get_source_async", "__getitem__",
}
REVIEWED_CYCLES = {
    "liquid.undefined.StrictUndefined.__getattribute__": "re-enters only for the names in allowed_properties (msg, token), each of which returns at once",
    "liquid.messages._extract_from_filters": "walks the finite expression tree",
}


def _is_parse_time(f: FuncInfo) -> bool:
    if f.module.name.startswith(("liquid.static_analysis", "liquid.analyze_tags", "liquid.messages", "liquid.extra.tags.extends_tag")) and not f.name.startswith("parse"):
        return False
    return f.name.startswith(("parse", "_parse")) or f.name in ("eat_block", "get_node", "validate_message_block", "into_inner")


# ---------------------------------------------------------------------------
# consumption summaries


def consuming_call(cg: CallGraph, f: FuncInfo, c: ast.Call, summaries: dict[str, bool]) -> bool:
    nm = callee_name(c)
    if isinstance(c.func, ast.Name) and nm == "next" and c.args:
        return True
    if isinstance(c.func, ast.Attribute) and nm in ("next_token", "eat", "eat_one_of"):
        return True
    if isinstance(c.func, ast.Attribute) and nm == "into_inner":
        # eat defaults to True
        for k in c.keywords:
            if k.arg == "eat" and isinstance(k.value, ast.Constant) and k.value.value is False:
                return False
        return True
    r = cg.resolve_call(f, c)
    if r:
        return all(summaries.get(g.qual, False) for g in r)
    return False


def compute_summaries(repo: Repo, cg: CallGraph) -> dict[str, bool]:
    """qual -> 'every normal return has consumed at least one token of its stream argument'."""
    funcs = [f for f in repo.all_functions() if _is_parse_time(f)]
    summ: dict[str, bool] = {f.qual: False for f in funcs}
    for _ in range(6):
        changed = False
        for f in funcs:
            if f.name in ("parse_block", "eat_block", "get_node"):
                continue  # may return without consuming (empty block / recovery)

            def gen(st, f=f):
                for c in calls(st):
                    if consuming_call(cg, f, c, summ):
                        return {"consumed"}
                return set()

            flow = MustFlow(gen=gen)
            exits = flow.run(f.node)
            rets = [st for k, _n, st in exits if k in ("return", "fallthrough")]
            # return statements whose own expression consumes: `return X(next(tokens))`
            ok = True
            for k, n, st in exits:
                if k == "raise":
                    continue
                if "consumed" in st:
                    continue
                if k == "return" and isinstance(n, ast.Return) and n.value is not None and any(consuming_call(cg, f, c, summ) for c in calls(n)):
                    continue
                ok = False
            val = ok and bool(rets)
            if not val and _guarded_accumulator(cg, f, summ):
                val = True
            if val != summ[f.qual]:
                summ[f.qual] = val
                changed = True
        if not changed:
            break
    return summ


def _guarded_accumulator(cg, f, summ) -> bool:
    """``acc = []; while ...: <append to acc ... consume>; if not acc: raise; return X(acc)``:
    a normal return implies at least one append; every iteration that appends either reaches
    the back edge (which C09-PROGRESS requires to have consumed) or breaks after consuming.
    Used for ``Path.parse``."""
    body = [s for s in f.node.body if not (isinstance(s, ast.Expr) and isinstance(s.value, ast.Constant))]
    loops = [s for s in body if isinstance(s, ast.While)]
    if len(loops) != 1:
        return False
    loop = loops[0]
    after = body[body.index(loop) + 1 :]
    guard = next((s for s in after if isinstance(s, ast.If) and isinstance(s.test, ast.UnaryOp) and isinstance(s.test.op, ast.Not) and isinstance(s.test.operand, ast.Name) and len(s.body) == 1 and isinstance(s.body[0], ast.Raise)), None)
    if guard is None or not isinstance(after[-1], ast.Return):
        return False
    acc = guard.test.operand.id
    # acc is appended only inside the loop
    for n in ast.walk(f.node):
        if isinstance(n, ast.Call) and callee_name(n) in ("append", "extend") and is_name(call_recv(n), acc):
            if not any(n is x for x in ast.walk(loop)):
                return False

    def gen(st):
        out = set()
        for c in calls(st):
            if consuming_call(cg, f, c, summ):
                out.add("consumed")
            if callee_name(c) in ("append", "extend") and isinstance(c.func, ast.Attribute) and is_name(call_recv(c), acc):
                out.add("appended")
        return out

    flow = MustFlow(gen=gen)
    flow._loops = [{"breaks": [], "continues": []}]
    flow._try_acc = []
    flow.exits = []
    out = flow.block(loop.body, frozenset())
    ctx = flow._loops[0]
    # appends on some-but-not-all paths to a break cannot be judged with must-facts: require that
    # every break state that may follow an append in the same branch has consumed; we approximate
    # "may follow an append" by must-fact "appended" plus a syntactic scan of each break's branch
    for st in ctx["breaks"]:
        if "appended" in st and "consumed" not in st:
            return False
    back = list(ctx["continues"]) + ([out] if out is not None else [])
    if any("consumed" not in st for st in back):
        return False
    return True


# ---------------------------------------------------------------------------
# abstract run of one loop iteration at end-of-stream


class EofRun:
    """Evaluate tests with the fact 'the current token is the EOF token'."""

    TRUE, FALSE, UNK = "T", "F", "?"

    def __init__(self, repo, f, cg, summaries, eof_raisers):
        self.repo, self.f, self.cg, self.summ, self.raisers = repo, f, cg, summaries, eof_raisers
        self.mod = f.module
        self.eof = fold_str(repo, repo.module("liquid.token"), ast.Name("TOKEN_EOF", ast.Load()), 0)
        self.tokvars: set[str] = set()  # locals known to hold the EOF token
        self.kindvars: set[str] = set()  # locals known to hold the EOF kind

    def is_tok(self, e) -> bool:
        e = unwrap_await(e)
        if isinstance(e, ast.Name):
            return e.id in self.tokvars
        ch = attr_chain(e)
        if ch and ch[-1] in ("current", "peek", "eof") and len(ch) >= 2:
            return True
        if isinstance(e, ast.Call):
            nm = callee_name(e)
            if (isinstance(e.func, ast.Name) and nm == "next") or nm in ("next_token",):
                return True
        return False

    def is_kind(self, e) -> bool:
        if isinstance(e, ast.Name):
            return e.id in self.kindvars
        if isinstance(e, ast.Attribute) and e.attr == "kind":
            return self.is_tok(e.value)
        return False

    def const_strs(self, e):
        s = fold_str(self.repo, self.mod, e, 0)
        if s is not None:
            return {s}
        ss = fold_str_set(self.repo, self.mod, e)
        if ss is not None:
            return set(ss)
        if isinstance(e, (ast.Tuple, ast.List, ast.Set)):
            out = set()
            for x in e.elts:
                r = self.const_strs(x)
                if r is None:
                    return None
                out |= r
            return out
        return None

    def test(self, t) -> str:
        T, F, U = self.TRUE, self.FALSE, self.UNK
        if isinstance(t, ast.BoolOp):
            vals = [self.test(v) for v in t.values]
            if isinstance(t.op, ast.And):
                if F in vals:
                    return F
                return T if all(v == T for v in vals) else U
            if T in vals:
                return T
            return F if all(v == F for v in vals) else U
        if isinstance(t, ast.UnaryOp) and isinstance(t.op, ast.Not):
            v = self.test(t.operand)
            return {T: F, F: T}.get(v, U)
        if isinstance(t, ast.Constant):
            return T if t.value else F
        if isinstance(t, ast.Compare) and len(t.ops) == 1:
            left, op, right = t.left, t.ops[0], t.comparators[0]
            if self.is_kind(left):
                cs = self.const_strs(right)
                if cs is not None:
                    if isinstance(op, ast.Eq):
                        return T if cs == {self.eof} else F
                    if isinstance(op, ast.NotEq):
                        return F if cs == {self.eof} else T
                    if isinstance(op, ast.In):
                        return T if self.eof in cs else F
                    if isinstance(op, ast.NotIn):
                        return F if self.eof in cs else T
                # membership in a parameter such as `delim` / `end`: EOF kind is never a delimiter;
                # `end` containers hold tag *names*, compared with values, not kinds
                if isinstance(op, ast.In) and isinstance(right, ast.Name):
                    return F
                if isinstance(op, ast.NotIn) and isinstance(right, ast.Name):
                    return T
            # token == tokens.eof
            if self.is_tok(left) and attr_chain(right) and attr_chain(right)[-1] == "eof":
                return T if isinstance(op, (ast.Eq, ast.Is)) else F
            # token is None  (never)
            if self.is_tok(left) and isinstance(right, ast.Constant) and right.value is None:
                return F if isinstance(op, (ast.Is, ast.Eq)) else T
            # value comparisons on the EOF token: its value is the EOF string, never a tag name
            if isinstance(left, ast.Attribute) and left.attr == "value" and self.is_tok(left.value):
                cs = self.const_strs(right)
                if isinstance(op, (ast.Eq, ast.In)):
                    return F if cs is None or self.eof not in cs else T
                if isinstance(op, (ast.NotEq, ast.NotIn)):
                    return T if cs is None or self.eof not in cs else F
            return U
        if isinstance(t, ast.Call):
            nm = callee_name(t)
            if nm == "is_tag" and isinstance(t.func, ast.Attribute) and self.is_tok(call_recv(t)):
                return F  # the EOF token is not a tag token
        return U

    def raises_at_eof(self, st) -> bool:
        for c in calls(st):
            nm = callee_name(c)
            if isinstance(c.func, ast.Attribute) and nm in ("eat", "eat_one_of", "expect") and c.args:
                cs = None
                if nm == "eat_one_of":
                    cs = set()
                    for a in c.args:
                        if isinstance(a, ast.Starred):
                            cs = None
                            break
                        r = self.const_strs(a)
                        if r is None:
                            cs = None
                            break
                        cs |= r
                    if cs is None:
                        return True  # *argument_separators: never contains EOF
                else:
                    cs = self.const_strs(c.args[0])
                if cs is not None and self.eof not in cs:
                    return True
            if isinstance(c.func, ast.Attribute) and nm == "into_inner":
                return True  # raises "missing expression" unless current is an expression token
            r = self.cg.resolve_call(self.f, c)
            if r and all(g.qual in self.raisers for g in r):
                return True
        return False

    def run(self, body, kindvars=(), tokvars=()) -> list[ast.AST]:
        """Return the statements after which a path reaches the back edge."""
        self.kindvars, self.tokvars = set(kindvars), set(tokvars)
        reach: list[ast.AST] = []
        self._block(body, reach)
        return reach

    def _bind(self, st):
        if isinstance(st, ast.Assign) and len(st.targets) == 1:
            t, v = st.targets[0], st.value
            if isinstance(t, ast.Name):
                if self.is_tok(v):
                    self.tokvars.add(t.id)
                elif self.is_kind(v):
                    self.kindvars.add(t.id)
                else:
                    self.tokvars.discard(t.id)
                    self.kindvars.discard(t.id)
            elif isinstance(t, ast.Tuple) and self.is_tok(v) and t.elts and isinstance(t.elts[0], ast.Name):
                # kind, value, index, source = tokens.current
                self.kindvars.add(t.elts[0].id)

    def _block(self, body, reach) -> bool:
        """Returns True when control can fall through the end of *body*."""
        for st in body:
            if isinstance(st, (ast.Break, ast.Return, ast.Raise)):
                return False
            if isinstance(st, ast.Continue):
                reach.append(st)
                return False
            if isinstance(st, ast.If):
                v = self.test(st.test)
                saved = (set(self.kindvars), set(self.tokvars))
                ft = ff = False
                if v in (self.TRUE, self.UNK):
                    ft = self._block(st.body, reach)
                after_t = (set(self.kindvars), set(self.tokvars))
                self.kindvars, self.tokvars = set(saved[0]), set(saved[1])
                if v in (self.FALSE, self.UNK):
                    ff = self._block(st.orelse, reach) if st.orelse else True
                # facts that hold on both continuing branches
                if v == self.TRUE:
                    self.kindvars, self.tokvars = after_t
                elif v == self.UNK:
                    self.kindvars &= after_t[0]
                    self.tokvars &= after_t[1]
                if not (ft or ff):
                    return False
                continue
            if isinstance(st, ast.Try):
                cont = self._block(st.body, reach)
                for h in st.handlers:
                    cont = self._block(h.body, reach) or cont
                if not cont:
                    return False
                continue
            if isinstance(st, (ast.While, ast.For)):
                continue  # nested loops are analysed on their own
            if isinstance(st, ast.With):
                if not self._block(st.body, reach):
                    return False
                continue
            if self.raises_at_eof(st):
                return False
            self._bind(st)
        return True


def _descends_into_argument(repo: Repo, qual: str) -> bool:
    """A self-recursive function in which every recursive call is handed a *part* of one of the
    function's own parameters: a variable of a ``for`` loop / comprehension over an expression
    rooted at a parameter, possibly through ``.children(...)`` or an attribute.  Such a function
    walks a finite structure (the parsed tree) downwards; it is not driven by the input text."""
    try:
        f = repo.func(qual)
    except Exception:  # noqa: BLE001
        return False
    params = set(f.params()) - {"self", "cls"}
    parts: set[str] = set()
    changed = True
    while changed:
        changed = False
        for n in ast.walk(f.node):
            gens = []
            if isinstance(n, (ast.For, ast.AsyncFor)):
                gens = [(n.target, n.iter)]
            elif isinstance(n, (ast.ListComp, ast.GeneratorExp, ast.SetComp, ast.DictComp)):
                gens = [(g.target, g.iter) for g in n.generators]
            for tg, it in gens:
                roots = names_in(it)
                if roots & (params | parts):
                    for nm in names_in(tg):
                        if nm not in parts:
                            parts.add(nm)
                            changed = True
    rec = [c for c in ast.walk(f.node) if isinstance(c, ast.Call) and (is_name(c.func, f.name) or (isinstance(c.func, ast.Attribute) and c.func.attr == f.name and isinstance(c.func.value, ast.Name) and c.func.value.id in ("self", "cls")))]
    if not rec:
        return False
    def strict_part(a: ast.AST) -> bool:
        # `<param>.left`, `<param>.block.nodes[0]`: an attribute / item of a parameter (or of a part) —
        # strictly inside the structure the parameter refers to
        cur, depth_ = a, 0
        while isinstance(cur, (ast.Attribute, ast.Subscript)):
            cur = cur.value
            depth_ += 1
        return depth_ >= 1 and isinstance(cur, ast.Name) and cur.id in (params | parts)

    for c in rec:
        args = list(c.args) + [k.value for k in c.keywords]
        if not any((names_in(a) & parts) or strict_part(a) for a in args):
            return False
    return True


def _forwards_to_parts_of_its_arguments(repo: Repo, qual: str, comp_names: set) -> bool:
    """A private helper inside a structural cycle that only *forwards*: every call it makes back
    into the cycle has a receiver that is one of its own parameters, an attribute / item of one, or
    a loop variable over one (``for f in filters: left = f.evaluate(left, context)``).  It adds no
    recursion of its own: how deep it goes is how deep the structure handed to it is."""
    name = qual.rsplit(".", 1)[-1]
    if not name.startswith("_") or name.startswith("__"):
        return False
    try:
        f = repo.func(qual)
    except Exception:  # noqa: BLE001
        return False
    params = set(f.params()) - {"self", "cls"}
    parts = set(params)
    changed = True
    while changed:
        changed = False
        for n in ast.walk(f.node):
            gens = []
            if isinstance(n, (ast.For, ast.AsyncFor)):
                gens = [(n.target, n.iter)]
            elif isinstance(n, (ast.ListComp, ast.GeneratorExp, ast.SetComp, ast.DictComp)):
                gens = [(g.target, g.iter) for g in n.generators]
            for tg, it in gens:
                if names_in(it) & parts:
                    for nm in names_in(tg):
                        if nm not in parts:
                            parts.add(nm)
                            changed = True
    n_calls = 0
    for c in ast.walk(f.node):
        if isinstance(c, ast.Call) and callee_name(c) in comp_names:
            n_calls += 1
            if not isinstance(c.func, ast.Attribute):
                return False
            root = c.func.value
            while isinstance(root, (ast.Attribute, ast.Subscript)):
                root = root.value
            if not (isinstance(root, ast.Name) and root.id in parts):
                return False
    return n_calls > 0


def run(repo: Repo) -> Result:
    res = Result(PID)
    res.rules = ["C09-PROGRESS", "C09-EOF", "C09-GUARDS", "C09-CYCLES", "C09-BUDGET", "C09-EXTENDS", "C09-FUNNEL"]
    res.explanation = "termination argument decided on source: finite token list + progress on every back edge + exit at end of stream; depth guards on every call-graph cycle; worst-case frame count against the interpreter's recursion limit"
    res.assumptions = [
        "TokenStream holds a finite list and next() only ever advances (checked: C09-GUARDS stream shape)",
        f"CPython default recursion limit {RECURSION_LIMIT}",
        "regular-expression matching cost is not decided",
    ]
    cg = CallGraph(repo)
    summ = compute_summaries(repo, cg)
    consumers = sorted(q for q, v in summ.items() if v)
    res.stats["consume_on_return"] = [q.replace("liquid.", "") for q in consumers]
    # functions that raise when called at EOF: they start by demanding a non-EOF token
    eof_raisers = set()
    for f in repo.all_functions():
        if not _is_parse_time(f):
            continue
        er = EofRun(repo, f, cg, summ, eof_raisers)
        body = [s for s in f.node.body if not (isinstance(s, ast.Expr) and isinstance(s.value, ast.Constant))]
        # a function "raises at EOF" if an EOF-run of its body never reaches a normal exit
        class R(EofRun):
            pass

    # fixed point for eof_raisers: run the function body; normal completion = fallthrough or return
    def returns_normally_at_eof(f, raisers) -> bool:
        er = EofRun(repo, f, cg, summ, raisers)
        ok = {"ret": False}

        def block(body) -> bool:
            for st in body:
                if isinstance(st, ast.Return):
                    if not er.raises_at_eof(st):
                        ok["ret"] = True
                    return False
                if isinstance(st, ast.Raise):
                    return False
                if isinstance(st, (ast.Break, ast.Continue)):
                    return True
                if isinstance(st, ast.If):
                    v = er.test(st.test)
                    a = b = False
                    if v in ("T", "?"):
                        a = block(st.body)
                    if v in ("F", "?"):
                        b = block(st.orelse) if st.orelse else True
                    if not (a or b):
                        return False
                    continue
                if isinstance(st, (ast.While, ast.For)):
                    # loops are assumed to be able to exit normally
                    continue
                if isinstance(st, ast.Try):
                    c = block(st.body)
                    for h in st.handlers:
                        c = block(h.body) or c
                    if not c:
                        return False
                    continue
                if isinstance(st, ast.With):
                    if not block(st.body):
                        return False
                    continue
                if er.raises_at_eof(st):
                    return False
                er._bind(st)
            return True

        fell = block([s for s in f.node.body])
        return ok["ret"] or fell

    for _ in range(5):
        changed = False
        for f in repo.all_functions():
            if not _is_parse_time(f) or f.qual in eof_raisers:
                continue
            if f.name in ("parse_block", "eat_block", "get_node", "parse") and f.cls is not None and f.cls.name in ("Parser",):
                continue
            if not returns_normally_at_eof(f, eof_raisers):
                eof_raisers.add(f.qual)
                changed = True
        if not changed:
            break
    res.stats["raise_at_eof"] = sorted(q.replace("liquid.", "") for q in eof_raisers)

    # ---- C09-PROGRESS / C09-EOF -------------------------------------------------
    n_loops = 0
    for f in repo.all_functions():
        if not _is_parse_time(f):
            continue
        for loop in ast.walk(f.node):
            if not isinstance(loop, ast.While):
                continue
            n_loops += 1
            construct = f"{f.qual}:while {text(loop.test)[:40]}"
            res.ob(construct, 2)
            # PROGRESS: must-flow over one iteration of the body
            def gen(st, f=f):
                for c in calls(st):
                    if consuming_call(cg, f, c, summ):
                        return {"consumed"}
                return set()

            flow = MustFlow(gen=gen)
            flow._loops = [{"breaks": [], "continues": []}]
            flow._try_acc = []
            flow.exits = []
            # the loop test itself may consume (`while next(...)`): not used in the repo
            out = flow.block(loop.body, frozenset())
            back = list(flow._loops[0]["continues"])
            if out is not None:
                back.append(out)
            stuck = [st for st in back if "consumed" not in st]
            if stuck:
                res.add(
                    "C09-PROGRESS",
                    f.qual,
                    f"no-progress:while {text(loop.test)[:30]}",
                    f"{f.qual}: the loop `while {text(loop.test)[:50]}` has a path back to its head that consumes no token — on that path the parser spins forever on the same token",
                    f.file,
                    loop.lineno,
                )
            # EOF
            er = EofRun(repo, f, cg, summ, eof_raisers)
            # facts from statements before the loop (token = next(tokens) etc.) at EOF
            pre_tok, pre_kind = set(), set()
            for st in walk_no_nested(f.node):
                if getattr(st, "lineno", 10**9) >= loop.lineno:
                    break
            # variables bound from current/next before the loop hold EOF as well
            er2 = EofRun(repo, f, cg, summ, eof_raisers)
            for st in f.node.body:
                if st is loop or getattr(st, "lineno", 0) >= loop.lineno:
                    break
                er2._bind(st)
            v = er2.test(loop.test)
            if v == "F":
                res.sample({"rule": "C09-EOF", "loop": construct, "exit": "loop condition is false at end of stream"}, cap=30)
                continue
            reach = er2.run(loop.body, kindvars=er2.kindvars, tokvars=er2.tokvars)
            fall = er2._block(loop.body, []) if False else None
            # run() records `continue` statements; fallthrough = _block returned True
            er3 = EofRun(repo, f, cg, summ, eof_raisers)
            er3.kindvars, er3.tokvars = set(er2.kindvars), set(er2.tokvars)
            conts: list = []
            falls = er3._block(loop.body, conts)
            if falls or conts:
                res.add(
                    "C09-EOF",
                    f.qual,
                    f"no-eof-exit:while {text(loop.test)[:30]}",
                    f"{f.qual}: with the stream exhausted, the loop `while {text(loop.test)[:50]}` can complete an iteration and come back to its head ({'falls through the body' if falls else 'continue'}); TokenStream.next() no longer advances at the end, so it never terminates on an unterminated template",
                    f.file,
                    loop.lineno,
                )
            else:
                res.sample({"rule": "C09-EOF", "loop": construct, "exit": "every path breaks / returns / raises at end of stream"}, cap=30)
    if n_loops < 20:
        raise AnchorMissing(f"only {n_loops} parse-time while loops found (22 confirmed by hand)")

    # stream shape: finite list, next only advances, eof at the end
    ts = repo.cls("liquid.stream.TokenStream")
    res.ob("stream-shape", 3)
    init_t = text(ts.methods["__init__"].node)
    if "self.tokens = list(tokens)" not in init_t or "self.pos = 0" not in init_t:
        res.add("C09-GUARDS", ts.qual, "finite-list", "TokenStream must hold a finite list of tokens and start at position 0", ts.file, ts.node.lineno)
    for m in ("next", "next_token"):
        t = text(ts.methods[m].node)
        if "self.pos += 1" not in t or "return self.eof" not in t or "self.pos -=" in t:
            res.add("C09-GUARDS", f"{ts.qual}.{m}", "advance", f"TokenStream.{m} must advance by one and return the EOF token at the end", ts.file, ts.methods[m].line)
    for g in repo.all_functions():
        for n in ast.walk(g.node):
            if isinstance(n, (ast.Assign, ast.AugAssign)):
                tg = n.targets if isinstance(n, ast.Assign) else [n.target]
                for t_ in tg:
                    if isinstance(t_, ast.Attribute) and t_.attr == "pos" and g.cls is not None and g.cls.name != "TokenStream" or (isinstance(t_, ast.Attribute) and t_.attr == "pos" and isinstance(n, ast.AugAssign) and isinstance(n.op, ast.Sub)):
                        res.ob(f"pos-write:{g.qual}")
                        res.add("C09-GUARDS", g.qual, "pos-rewind", f"{g.qual} writes the stream position: a rewind breaks the progress argument", g.file, n.lineno)

    # ---- C09-GUARDS ------------------------------------------------------------------
    # each depth guard is read through its path condition on the normalised function (private
    # helpers inlined, `depth = self._copy_depth`-style aliases propagated; sa/normalize.py,
    # sa/guards.py): "<ErrorClass> is raised exactly when <measure> > <limit>", and the guarded
    # action (parsing a node / pushing a scope / constructing the child context) is only reached
    # after it.
    from ..guards import canon as _canon
    from ..guards import conditions as _conditions
    from ..guards import exits as _exits
    from ..normalize import nfunc as _nfunc

    def depth_guard(fn, exc: str, measure: str, limit: str, what: str, guarded_pred) -> None:
        rs = [e for e in _exits(fn.node) if e.kind == "raise" and e.raised() == exc]
        want = _canon(ast.parse(f"{measure} > {limit}", mode="eval").body)
        ok = len(rs) == 1 and rs[0].canon == [want]
        if not ok:
            res.add("C09-GUARDS", fn.qual, what, f"{fn.qual} must raise {exc} exactly when `{measure} > {limit}` (found {[r.canon for r in rs]})", fn.file, fn.line)
            return
        # the guarded action runs only where the guard's negation holds
        neg = _canon(ast.parse(f"{measure} <= {limit}", mode="eval").body)
        hit = False
        for st, cs in _conditions(fn.node):
            if guarded_pred(st):
                hit = True
                if neg not in [_canon(c) for c in cs]:
                    res.add("C09-GUARDS", fn.qual, f"{what}:order", f"{fn.qual}: `{text(st)[:60]}` can run before the {exc} check", fn.file, st.lineno)
        if not hit:
            res.add("C09-GUARDS", fn.qual, f"{what}:guarded-action", f"{fn.qual}: the action guarded by the {exc} check was not found", fn.file, fn.line)

    pb = _nfunc(repo, repo.own_method("liquid.parser.Parser", "parse_block"), keep=("_parse",))
    res.ob(pb.qual, 3)
    body = [s for s in pb.node.body if not (isinstance(s, ast.Expr) and isinstance(s.value, ast.Constant))]
    idx_inc = next((i for i, s in enumerate(body) if text(s) in ("stream.block_depth += 1", "stream.block_depth = stream.block_depth + 1")), None)
    idx_loop = next((i for i, s in enumerate(body) if isinstance(s, ast.While)), None)
    depth_guard(pb, "BlockNestingError", "stream.block_depth", "self.env.block_nesting_limit", "block-depth", lambda st: isinstance(st, ast.While))
    if idx_inc is None or idx_loop is None or not idx_inc < idx_loop or any(isinstance(s, ast.If) and "BlockNestingError" in text(s) for s in body[: idx_inc or 0]):
        res.add("C09-GUARDS", pb.qual, "block-depth", "parse_block must increment stream.block_depth and raise BlockNestingError when it exceeds block_nesting_limit before parsing any node", pb.file, pb.line)
    if not any(text(n) in ("stream.block_depth -= 1", "stream.block_depth = stream.block_depth - 1") for n in ast.walk(pb.node) if isinstance(n, ast.stmt)):
        res.add("C09-GUARDS", pb.qual, "block-depth-dec", "parse_block must decrement stream.block_depth when it returns", pb.file, pb.line)
    lt = repo.own_method("liquid.builtin.tags.liquid_tag.LiquidTag", "parse")
    res.ob(lt.qual)
    if not any(isinstance(c, ast.Call) and callee_name(c) == "TokenStream" and any(k.arg == "block_depth_carry" and text(k.value) == "stream.block_depth" for k in c.keywords) for c in ast.walk(lt.node)):
        res.add("C09-GUARDS", lt.qual, "carry", "the liquid tag must carry the block depth into its inner token stream (otherwise nesting through liquid tags is unbounded)", lt.file, lt.line)
    ex = _nfunc(repo, repo.own_method("liquid.context.RenderContext", "extend"))
    res.ob(ex.qual, 2)
    depth_guard(ex, "ContextDepthError", "self.scope.size()", "self.env.context_depth_limit", "depth-check", lambda st: isinstance(st, ast.Expr) and isinstance(st.value, ast.Call) and callee_name(st.value) == "push")
    cp = _nfunc(repo, repo.own_method("liquid.context.RenderContext", "copy"))
    res.ob(cp.qual, 2)
    depth_guard(cp, "ContextDepthError", "self._copy_depth", "self.env.context_depth_limit", "depth-check", lambda st: isinstance(st, ast.Assign) and isinstance(st.value, ast.Call) and text(st.value.func) in ("self.__class__", "RenderContext", "type(self)"))
    for c in calls(cp.node):
        if text(c.func) in ("self.__class__", "RenderContext", "type(self)"):
            res.ob(f"{cp.qual}:ctor-depth")
            kw = {k.arg: k.value for k in c.keywords}
            v = kw.get("copy_depth")
            if v is None or symb.norm(v) != symb.norm(ast.parse("self._copy_depth + 1", mode="eval").body):
                res.add("C09-GUARDS", cp.qual, "copy-depth+1", "every context built by copy must get copy_depth=self._copy_depth + 1", cp.file, c.lineno)
    ci = repo.own_method("liquid.context.RenderContext", "__init__")
    res.ob(ci.qual)
    if "self._copy_depth = copy_depth" not in text(ci.node):
        res.add("C09-GUARDS", ci.qual, "store-depth", "RenderContext.__init__ must store copy_depth", ci.file, ci.line)

    # ---- C09-CYCLES -------------------------------------------------------------------
    funcs = list(repo.all_functions())
    edges = {f.qual: [g.qual for g in cg.callees(f)] for f in funcs}
    # nested defs too
    for f in funcs:
        for nd in cg.nested_defs(f).values():
            edges[nd.qual] = [g.qual for g in cg.callees(nd)]
    comps = [c for c in sccs(list(edges), edges) if len(c) > 1 or c[0] in edges.get(c[0], [])]
    guard_funcs = {pb.qual}
    n_cyc = 0
    for comp in comps:
        n_cyc += 1
        key = ",".join(sorted(x.replace("liquid.", "") for x in comp))
        res.ob(f"cycle:{key[:80]}")
        if any(q in guard_funcs for q in comp):
            res.sample({"rule": "C09-CYCLES", "cycle": key[:160], "bounded_by": "Parser.parse_block block_depth guard"}, cap=30)
            continue
        names = {q.rsplit(".", 1)[-1] for q in comp if not _forwards_to_parts_of_its_arguments(repo, q, names_of_comp := {x.rsplit(".", 1)[-1] for x in comp})}
        mods = {q.rsplit(".", 2)[0] if q.count(".") > 2 else q for q in comp}
        if names <= STRUCTURAL_NAMES or all(q.startswith(("liquid.static_analysis.", "liquid.messages.")) for q in comp) or all(q.rsplit(".", 1)[-1].startswith(("_segments", "children", "_visit", "visit", "_flatten", "_analyze", "_extract")) for q in comp):
            res.sample({"rule": "C09-CYCLES", "cycle": key[:160], "bounded_by": "structural walk over the finite parsed tree / configuration"}, cap=30)
            continue
        if all(q in REVIEWED_CYCLES for q in comp) or all(".__str__" in q or q.rsplit(".", 1)[-1] in ("__str__", "_segments_str") for q in comp):
            continue
        if len(comp) == 1 and _descends_into_argument(repo, comp[0]):
            res.sample({"rule": "C09-CYCLES", "cycle": key[:160], "bounded_by": "structural recursion: every recursive call receives a part of the function's own argument (loop variable over it / its children)"}, cap=30)
            continue
        res.add(
            "C09-CYCLES",
            comp[0] if len(comp) == 1 else sorted(comp)[0],
            f"unguarded:{key[:150]}",
            f"recursive cycle without a depth guard: {key[:300]} — recursion depth is proportional to the nesting written in the source, so a long enough expression exhausts the Python stack (RecursionError, reported as 'unexpected liquid parsing error' even in lax mode)",
            repo.func(sorted(comp)[0]).file if sorted(comp)[0] in {f.qual for f in funcs} else "",
            0,
        )
    if n_cyc < 8:
        raise AnchorMissing(f"only {n_cyc} call-graph cycles found")
    # render walk: calls that leave the current tree must be depth guarded
    n_dyn = 0
    for f0 in funcs:
        if f0.name not in ("render_to_output", "render_to_output_async", "__getitem__") or f0.cls is None:
            continue
        if f0.name == "__getitem__" and f0.cls.name != "BlockDrop":
            continue
        f = _nfunc(repo, f0, aliases=False)  # private helpers of the node class inlined
        assigns = {}
        for st in walk_no_nested(f.node):
            if isinstance(st, ast.Assign) and isinstance(st.targets[0], ast.Name):
                assigns.setdefault(st.targets[0].id, []).append(unwrap_await(st.value))
        pm = {}
        for n in ast.walk(f.node):
            for ch in ast.iter_child_nodes(n):
                pm[id(ch)] = n
        own_iter = set()
        for n in ast.walk(f.node):
            gens = []
            if isinstance(n, (ast.For, ast.AsyncFor)):
                gens = [(n.target, n.iter)]
            elif isinstance(n, (ast.ListComp, ast.GeneratorExp, ast.SetComp, ast.DictComp)):
                gens = [(g.target, g.iter) for g in n.generators]
            for tg, it in gens:
                ch = attr_chain(unwrap_await(it))
                if ch and ch[0] == "self" and len(ch) == 2:
                    own_iter |= names_in(tg)
        for c in calls(f.node):
            nm = callee_name(c)
            if nm not in ("render", "render_async", "render_with_context", "render_with_context_async") or not isinstance(c.func, ast.Attribute):
                continue
            chain = attr_chain(call_recv(c))
            if chain and chain[0] == "self" and not (len(chain) > 1 and chain[1] == "parent"):
                continue  # structural descent into this node's own children
            if chain and chain[0] in own_iter:
                continue  # an item of one of this node's own child lists
            n_dyn += 1
            res.ob(f"dynamic-render:{f.qual}:{text(c.func)[:30]}")
            if nm.startswith("render_with_context"):
                continue  # it opens `with context.extend(...)` itself (checked below)
            ctx = c.args[0] if c.args else None
            ok = False
            if isinstance(ctx, ast.Name) and ctx.id in assigns and all(isinstance(v, ast.Call) and callee_name(v) == "copy" for v in assigns[ctx.id]):
                ok = True
            if isinstance(unwrap_await(ctx), ast.Call) and callee_name(unwrap_await(ctx)) == "copy":
                ok = True  # rendered directly on `context.copy(...)`
            cur = c
            while id(cur) in pm and not ok:
                cur = pm[id(cur)]
                if isinstance(cur, ast.With) and any(isinstance(i.context_expr, ast.Call) and callee_name(i.context_expr) in ("extend", "loop") for i in cur.items):
                    ok = True
            if not ok:
                res.add("C09-CYCLES", f.qual, f"unguarded-dynamic-render:{text(c.func)[:40]}", f"{f.qual} renders `{text(c.func)[:50]}` — a block found at run time, outside this node's own children — neither on a context.copy nor under context.extend: a definition that reaches itself recurses without any depth check", f.file, c.lineno)
    if n_dyn < 10:
        raise AnchorMissing(f"only {n_dyn} dynamic render calls found")
    for m in ("render_with_context", "render_with_context_async"):
        f = repo.own_method("liquid.template.BoundTemplate", m)
        res.ob(f"{f.qual}:extend")
        withs = [n for n in walk_no_nested(f.node) if isinstance(n, ast.With) and any(isinstance(i.context_expr, ast.Call) and callee_name(i.context_expr) == "extend" for i in n.items)]
        rc = [c for c in calls(f.node) if callee_name(c) in ("render", "render_async")]
        inside = withs and all(any(c is x for x in ast.walk(withs[0])) for c in rc)
        if not inside:
            res.add("C09-CYCLES", f.qual, "extend", f"{f.qual} must render every node inside `with context.extend(...)` (the depth guard for include/render/extends recursion)", f.file, f.line)

    # ---- C09-BUDGET ----------------------------------------------------------------------
    env = repo.cls("liquid.environment.Environment")
    try:
        bnl = env.attrs["block_nesting_limit"].value
        cdl = env.attrs["context_depth_limit"].value
    except Exception as err:  # noqa: BLE001
        raise AnchorMissing("Environment.block_nesting_limit / context_depth_limit are not int literals") from err
    # frames per block-nesting level: Node.render + N.render_to_output + (frames down to the
    # BlockNode that holds the nested nodes, typed through the __init__ annotations)
    node_classes = {c.name: c for c in repo.subclasses("liquid.ast.Node")}

    def field_types(c) -> dict[str, set[str]]:
        out: dict[str, set[str]] = {}
        init = repo.find_method(c, "__init__")
        if init is None:
            return out
        ann = {}
        a = init.node.args
        for x in a.args + a.kwonlyargs:
            if x.annotation is not None:
                ann[x.arg] = {n.id for n in ast.walk(x.annotation) if isinstance(n, ast.Name)} | {n.value for n in ast.walk(x.annotation) if isinstance(n, ast.Constant) and isinstance(n.value, str)}
        for st in walk_no_nested(init.node):
            if isinstance(st, ast.Assign) and isinstance(st.targets[0], ast.Attribute) and is_name(st.targets[0].value, "self") and isinstance(st.value, ast.Name):
                out[st.targets[0].attr] = {t for t in ann.get(st.value.id, set()) if t in node_classes}
        return out

    def frames_to_block(c, depth=0) -> int:
        """Frames from C.render_to_output (inclusive) down to and including the generator frame
        of the BlockNode that renders the nested nodes."""
        if c.name == "BlockNode" and c.qual == "liquid.ast.BlockNode":
            return 1 + 1  # BlockNode.render_to_output + the generator expression inside sum()
        if depth > 4:
            return 1
        rto = c.methods.get("render_to_output") or repo.find_method(c, "render_to_output")
        if rto is None:
            return 1
        ft = field_types(c)
        best = 0
        own_iter = {}
        for n in ast.walk(rto.node):
            gens = []
            if isinstance(n, (ast.For,)):
                gens = [(n.target, n.iter)]
            elif isinstance(n, (ast.ListComp, ast.GeneratorExp)):
                gens = [(g.target, g.iter) for g in n.generators]
            for tg, it in gens:
                ch = attr_chain(it)
                if ch and ch[0] == "self" and len(ch) == 2:
                    for nm in names_in(tg):
                        own_iter[nm] = ch[1]
        for call in calls(rto.node):
            if callee_name(call) != "render" or not isinstance(call.func, ast.Attribute):
                continue
            ch = attr_chain(call_recv(call))
            if not ch:
                continue
            fld = ch[1] if ch[0] == "self" and len(ch) >= 2 else own_iter.get(ch[0])
            if fld is None:
                continue
            types = ft.get(fld, set())
            if len(ch) >= 3 and ch[-1] == "block":
                types = {"BlockNode"}
            for t in types or {"BlockNode"}:
                tc = node_classes.get(t)
                if tc is None:
                    continue
                if t == "BlockNode":
                    tc = repo.cls("liquid.ast.BlockNode")
                best = max(best, 1 + frames_to_block(tc, depth + 1))  # Node.render + below
        return 1 + best

    per_tag = {}
    for c in node_classes.values():
        if c.qual == "liquid.ast.BlockNode":
            continue
        ftb = frames_to_block(c)
        if ftb > 2:
            per_tag[c.name] = 1 + ftb  # Node.render of the tag node itself
    if not per_tag:
        raise AnchorMissing("no block-rendering node classes found for the frame count")
    f_b = max(per_tag.values())
    f_p = 3  # Node.render + Include/RenderNode.render_to_output + render_with_context
    res.stats["frames_per_block_level_by_tag"] = dict(sorted(per_tag.items(), key=lambda kv: -kv[1])[:8])
    res.ob("budget", 3)
    if f_b < 3:
        raise AnchorMissing(f"frames per block level computed as {f_b}")
    worst = (cdl + 2) * (bnl * f_b + f_p)
    res.stats.update(frames_per_block_level=f_b, frames_per_partial_level=f_p, block_nesting_limit=bnl, context_depth_limit=cdl, worst_case_frames=worst, recursion_limit=RECURSION_LIMIT)
    res.sample({"rule": "C09-BUDGET", "formula": f"({cdl}+2) x ({bnl} x {f_b} + {f_p}) = {worst}", "limit": RECURSION_LIMIT})
    if worst > RECURSION_LIMIT:
        res.add(
            "C09-BUDGET",
            "liquid.environment.Environment",
            "defaults-exceed-stack",
            f"with the default limits a permitted template needs up to ({cdl}+2) x ({bnl} x {f_b} + {f_p}) = {worst} Python frames (> {RECURSION_LIMIT}): a partial that includes itself from block depth 25, or renders itself from depth 6, dies with RecursionError before ContextDepthError can be raised",
            env.file,
            env.node.lineno,
        )
    # ---- C09-EXTENDS: the two render-time `while` loops (walks up an extends chain) -----------
    # They consume no token stream; they terminate because every step loads a parent whose name
    # was not seen before (finite template set) — decided by the seen-set rule shared with C18.
    from .c18 import check_extends_cycle

    check_extends_cycle(repo, res, "C09-EXTENDS")
    # ---- C09-FUNNEL: a parse that does exhaust the stack is reported as a Liquid error ---------------
    # Parse-time recursion is driven by the source (nested brackets, ranges, parentheses: the
    # listed findings) and only partly bounded by block_nesting_limit; what keeps "exhausting the
    # Python stack" from reaching the caller as a bare RecursionError is the handler around
    # ``self._parse(source)`` in ``Environment.from_string``: it must catch RecursionError (any
    # class RecursionError derives from) and raise a LiquidError.
    from ..astutil import handler_types
    from ..engines import hnd as _hnd

    H9 = _hnd.Hier(repo)
    fs = repo.own_method("liquid.environment.Environment", "from_string")
    res.ob(f"funnel:{fs.qual}", 2)
    pcalls = [c for c in calls(fs.node) if callee_name(c) == "_parse"]
    if len(pcalls) != 1:
        raise AnchorMissing("Environment.from_string no longer calls self._parse exactly once")
    converted = False
    for _tr, hs in _hnd.enclosing_try_handlers(fs.node, pcalls[0]):
        for h in hs:
            if not handler_types(h) or H9.catches(handler_types(h), "RecursionError"):
                kinds, raised = _hnd.classify(h)
                converted = "convert" in kinds and "swallow" not in kinds and all(H9.is_liquid_error(r.split(".")[-1]) for r in raised)
                break
        if converted:
            break
    if not converted:
        res.add("C09-FUNNEL", fs.qual, "recursion-error-not-converted", "no handler around self._parse(source) in Environment.from_string catches RecursionError and raises a LiquidError: a source nested deeply enough (brackets, ranges, parentheses, blocks) exhausts the Python stack and the bare RecursionError reaches the caller of from_string / get_template", fs.file, fs.line)
    res.stats.update(parse_time_loops=n_loops, call_graph_cycles=n_cyc, dynamic_render_calls=n_dyn, resolved_calls=cg.resolved, unresolved_calls=cg.unresolved)
    return res


def selftest(repo: Repo):
    from ..selftest import Variant, text_edit

    def v(name, rel, old, new, expect, count=1):
        return lambda: Variant(name, text_edit(repo, rel, old, new, count), expect)

    P = "liquid/parser.py"
    C = "liquid/context.py"
    return [
        v("parse_block-no-advance", P, "            except LiquidError as err:\n                self.env.error(err, token=stream.current)\n\n            next(stream)\n\n        stream.block_depth -= 1", "            except LiquidError as err:\n                self.env.error(err, token=stream.current)\n\n        stream.block_depth -= 1", "C09-PROGRESS"),
        v("eat_block-no-advance", P, "            break\n        next(stream)\n\n\n@lru_cache", "            break\n\n\n@lru_cache", "C09-PROGRESS"),
        v("comment-no-eof-check", "liquid/builtin/tags/comment_tag.py", "            if stream.current.kind == TOKEN_EOF:\n                raise LiquidSyntaxError(\"comment tag was never closed\", token=token)\n", "", "C09-EOF"),
        v("case-no-progress", "liquid/builtin/tags/case_tag.py", "            if stream.current.is_tag(TAG_ELSE):\n                next(stream)\n                blocks.append(parse_block(stream, ENDWHENBLOCK))", "            if stream.current.is_tag(TAG_ELSE):\n                blocks.append(parse_block(stream, ENDWHENBLOCK))", "C09-PROGRESS"),
        v("filter-args-no-advance", "liquid/builtin/expressions/filtered.py", "                            token=tokens.peek,\n                        )\n                    next(tokens)\n                else:\n                    break", "                            token=tokens.peek,\n                        )\n                else:\n                    break", "C09-PROGRESS"),
        v("no-block-depth-check", P, "        if stream.block_depth > self.env.block_nesting_limit:\n            raise BlockNestingError(\"block nesting limit reached\", token=None)\n", "", "C09-GUARDS"),
        v("extend-no-depth-check", C, "        if self.scope.size() > self.env.context_depth_limit:\n            raise ContextDepthError(\n                \"maximum context depth reached, possible recursive include\", token=None\n            )\n", "", "C09-GUARDS"),
        v("copy-depth-not-incremented", C, "                copy_depth=self._copy_depth + 1,", "                copy_depth=self._copy_depth,", "C09-GUARDS", count=2),
        v("liquid-tag-resets-depth", "liquid/builtin/tags/liquid_tag.py", "                    block_depth_carry=stream.block_depth,\n", "", "C09-GUARDS"),
        v("macro-rendered-on-caller-context", "liquid/extra/tags/macro_tag.py", "        return macro.block.render(macro_context, buffer)", "        return macro.block.render(context, buffer)", "C09-CYCLES"),
        v("stream-rewinds", "liquid/stream.py", "    def expect_eos(self) -> None:", "    def rewind(self) -> None:\n        self.pos -= 1\n\n    def expect_eos(self) -> None:", "C09-GUARDS"),
        v("new-recursive-helper", "liquid/builtin/expressions/arguments.py", "def parse_arguments(", "def _parse_nested(env, tokens):\n    if tokens.current.kind == TOKEN_COMMA:\n        next(tokens)\n        return _parse_nested(env, tokens)\n    return None\n\n\ndef parse_arguments(", "C09-CYCLES"),
        v("path-loop-no-advance", "liquid/builtin/expressions/path.py", "            else:\n                break\n\n            next(tokens)\n", "            else:\n                break\n", "C09-PROGRESS"),
    ]
