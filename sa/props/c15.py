"""C15 — rendered partials and macros are isolated from their caller.

Full structural decision for what may flow into an isolated context:
  C15-COPY     in ``RenderNode.render_to_output*`` every ``render_with_context*`` call, and in
               ``CallNode.render_to_output*`` the macro body's ``render*`` call, receives a
               context bound from ``context.copy(...)`` called *without* ``block_scope=True``.
  C15-NS       the namespace handed to that ``copy`` is built only from the tag's evaluated
               arguments / bound variable (a fresh dict or ReadOnlyChainMap of one) — never
               from ``context.scope``, ``context.locals`` or ``context.loops``.
  C15-CTOR     in ``RenderContext.copy`` the non-``block_scope`` constructor call passes
               ``globals=ReadOnlyChainMap(namespace, self.globals)`` and none of
               ``self.locals / self.scope / self.loops / self.tag_namespace / self.counters``
               flows into any of its arguments; nothing is assigned onto the new context
               afterwards on that branch.
  C15-FRESH    ``RenderContext.__init__`` creates fresh ``locals``, ``counters``, ``loops`` and
               ``tag_namespace`` (the copy's assignments land in its own namespace).
  C15-INIT     ``RenderContext.__init__`` keeps the ``globals`` mapping it is given by reference
               (no truthiness default: the render tag fills an initially empty chain map after
               the copy).
  C15-PARENT   ``parent_context`` is read only for resource accounting (a frozen attribute
               list); ``parentloop()`` answers from the context's own loop stack.
               In the block-scope branch of ``copy`` the parent's scope may reach the new
               context's ``scope`` chain only, never its globals (C15-CTOR).
  C15-DISABLED ``render`` passes ``disabled_tags`` containing ``include``; ``call`` passes
               ``include`` and ``block``; ``Node.render*`` checks ``disabled_tags`` (raising
               DisabledTagError) before delegating to ``render_to_output*`` and no node class
               overrides ``render``/``render_async``.
"""

from __future__ import annotations

import ast

from ..astutil import call_recv, attr_chain, bind_args, callee_name, calls, is_name, is_self_attr, names_in, text, unwrap_await
from ..core import Result
from ..flow import MustFlow, node_calls
from ..model import AnchorMissing, Repo, fold_str, walk_no_nested

PID = "C15"
MIN_OBLIGATIONS = 20
CALLER_STATE = ("locals", "scope", "loops", "tag_namespace", "counters")
RENDER = "liquid.builtin.tags.render_tag.RenderNode"
CALL = "liquid.extra.tags.macro_tag.CallNode"
CTX = "liquid.context.RenderContext"


def _local_values(fn):
    out = {}
    for st in walk_no_nested(fn):
        if isinstance(st, ast.Assign) and len(st.targets) == 1 and isinstance(st.targets[0], ast.Name):
            out.setdefault(st.targets[0].id, []).append(unwrap_await(st.value))
        elif isinstance(st, ast.AnnAssign) and isinstance(st.target, ast.Name) and st.value is not None:
            out.setdefault(st.target.id, []).append(unwrap_await(st.value))
    return out


def _mentions_caller_state(expr, ctxname="context", state=CALLER_STATE) -> list[str]:
    bad = []
    for n in ast.walk(expr):
        if isinstance(n, ast.Attribute) and n.attr in state and isinstance(n.value, ast.Name) and n.value.id in (ctxname, "self"):
            bad.append(text(n))
    return bad


CONTEXT_OK_ATTRS = {"env", "autoescape", "template", "copy", "tag_namespace"}  # tag_namespace["macros"] holds parsed macro definitions, not variables


def _reads_through_context(expr, ctxname="context") -> list[str]:
    """uses of the caller's context as a *receiver* (``context.resolve(name)``, ``context.get``,
    ``context.scope[...]`` ...) other than the environment / configuration attributes: each is a
    read of caller variables that no argument expression of the tag asked for."""
    bad = []
    for n in ast.walk(expr):
        if isinstance(n, ast.Attribute) and is_name(n.value, ctxname) and n.attr not in CONTEXT_OK_ATTRS:
            bad.append(text(n))
    return bad


def globals_by_reference(repo: Repo):
    """None when ``RenderContext.__init__`` keeps the ``globals`` mapping it is given by reference
    whenever one is given (a replacement only under ``globals is None``); otherwise (text, line) of
    the offending binding.  Shared with C14 (the innermost binding of ``render ... as x`` lives in
    that mapping)."""
    from ..guards import canon, conditions, conjuncts

    init = repo.own_method(CTX, "__init__")
    is_none = canon(ast.parse("globals is None", mode="eval").body)

    def value_ok(e, conds) -> bool:
        if is_name(e, "globals"):
            return True
        if isinstance(e, ast.IfExp):
            pos = [canon(c) for c in conjuncts(e.test)]
            neg = [canon(c) for c in conjuncts(ast.UnaryOp(op=ast.Not(), operand=e.test))]
            return value_ok(e.body, conds + pos) and value_ok(e.orelse, conds + neg)
        # any other object may stand in only where no mapping was given
        return is_none in conds

    gl = None
    for st, cs in conditions(init.node):
        tgt = st.targets[0] if isinstance(st, ast.Assign) else st.target if isinstance(st, ast.AnnAssign) else None
        if tgt is None or getattr(st, "value", None) is None:
            continue
        conds = [canon(c) for c in cs]
        if is_self_attr(tgt) and tgt.attr == "globals":
            gl = st
            if not value_ok(st.value, conds):
                return text(st.value), st.lineno
        if is_name(tgt, "globals") and not value_ok(st.value, conds):
            return f"{text(st.value)} (via `{text(st)[:50]}`)", st.lineno
    if gl is None:
        raise AnchorMissing("RenderContext.__init__ no longer assigns self.globals")
    return None


def _shares_only_extends(repo: Repo, copy_fn, st: ast.Assign, t: ast.AST) -> bool:
    """``<ctx>.tag_namespace[k] = self.tag_namespace[k]`` where ``k`` is the variable of a ``for`` loop
    over a parameter of ``copy`` whose default is a tuple of string constants, all "extends", and no
    call of ``copy`` anywhere in the repository passes that parameter."""
    if not (isinstance(t, ast.Subscript) and isinstance(t.value, ast.Attribute) and t.value.attr == "tag_namespace" and isinstance(t.slice, ast.Name)):
        return False
    k = t.slice.id
    v = st.value
    if not (isinstance(v, ast.Subscript) and text(v.value) == "self.tag_namespace" and isinstance(v.slice, ast.Name) and v.slice.id == k):
        return False
    loop = next((n for n in ast.walk(copy_fn.node) if isinstance(n, ast.For) and isinstance(n.target, ast.Name) and n.target.id == k and any(x is st for x in ast.walk(n))), None)
    if loop is None or not isinstance(loop.iter, ast.Name):
        return False
    pname = loop.iter.id
    a = copy_fn.node.args
    allp = a.posonlyargs + a.args
    defaults = dict(zip([x.arg for x in allp][len(allp) - len(a.defaults) :], a.defaults))
    defaults.update({x.arg: d for x, d in zip(a.kwonlyargs, a.kw_defaults) if d is not None})
    d = defaults.get(pname)
    if not (isinstance(d, (ast.Tuple, ast.List)) and d.elts and all(isinstance(e, ast.Constant) and e.value == "extends" for e in d.elts)):
        return False
    if any(isinstance(x, ast.Name) and x.id == pname and isinstance(x.ctx, ast.Store) for x in ast.walk(copy_fn.node)):
        return False
    for f in repo.all_functions():
        for c in ast.walk(f.node):
            if isinstance(c, ast.Call) and callee_name(c) == "copy" and any(kw.arg == pname for kw in c.keywords):
                return False
    return True


def run(repo: Repo) -> Result:
    res = Result(PID)
    res.rules = ["C15-COPY", "C15-NS", "C15-CTOR", "C15-FRESH", "C15-INIT", "C15-PARENT", "C15-DISABLED"]
    res.explanation = "flow rule: what may reach the context a render/call body runs on"
    res.assumptions = ["RenderContext.copy is the only factory of child contexts (checked: C15-COPY requires it)"]
    copy_fn = repo.own_method(CTX, "copy")

    def check_node(cls_qual, methods, body_calls, want_disabled):
        from ..normalize import nfunc

        for m in methods:
            # private helpers of the node class (`_isolated_context`, `_macro_context`, ...) are
            # inlined first: what matters is what reaches `copy`, not which method spells it
            f = nfunc(repo, repo.own_method(cls_qual, m), keep=("_format_message",), aliases=False)
            vals = _local_values(f.node)
            targets = [c for c in calls(f.node) if callee_name(c) in body_calls]
            if not targets:
                raise AnchorMissing(f"{f.qual}: no {body_calls} call found")
            for c in targets:
                res.ob(f"{f.qual}:{text(c)[:50]}")
                ctx_arg = c.args[0] if c.args else next((k.value for k in c.keywords if k.arg == "context"), None)
                srcs = vals.get(ctx_arg.id, []) if isinstance(ctx_arg, ast.Name) else [unwrap_await(ctx_arg)] if isinstance(unwrap_await(ctx_arg), ast.Call) else []
                copies = [s for s in srcs if isinstance(s, ast.Call) and callee_name(s) == "copy" and isinstance(s.func, ast.Attribute) and is_name(call_recv(s), "context")]
                if not copies or len(copies) != len(srcs):
                    res.add("C15-COPY", f.qual, f"{callee_name(c)}:ctx={text(ctx_arg) if ctx_arg is not None else None}", f"{f.qual}: the body is rendered on `{text(ctx_arg) if ctx_arg is not None else None}`, which is not (only) the result of context.copy(...): caller variables are visible to it", f.file, c.lineno)
                    continue
                for cp in copies:
                    b = bind_args(cp, copy_fn.node)
                    if b is None:
                        res.add("C15-COPY", f.qual, "copy-args", f"{f.qual}: cannot bind arguments of {text(cp)[:60]}", f.file, cp.lineno)
                        continue
                    bs = b.get("block_scope")
                    if bs is not None and not (isinstance(bs, ast.Constant) and bs.value is False):
                        res.add("C15-COPY", f.qual, "block_scope", f"{f.qual}: copy(block_scope={text(bs)}) shares the caller's scope with the partial", f.file, cp.lineno)
                    # disabled tags
                    dt = b.get("disabled_tags")
                    # a fresh copy of a class attribute: list(self.x) / tuple(self.x) / [*self.x]
                    if isinstance(dt, ast.Call) and is_name(dt.func, ("list")) and len(dt.args) == 1 or isinstance(dt, ast.Call) and is_name(dt.func, ("tuple")) and len(dt.args) == 1:
                        dt = dt.args[0]
                    elif isinstance(dt, (ast.List, ast.Tuple)) and len(dt.elts) == 1 and isinstance(dt.elts[0], ast.Starred):
                        dt = dt.elts[0].value
                    names = set()
                    if isinstance(dt, (ast.List, ast.Tuple)):
                        for e in dt.elts:
                            s = fold_str(repo, f.module, e, 0)
                            if s:
                                names.add(s)
                    elif dt is not None and is_self_attr(dt):
                        a = repo.find_attr(f.cls, dt.attr)
                        if a and isinstance(a[1], (ast.List, ast.Tuple)):
                            for e in a[1].elts:
                                s = fold_str(repo, a[0].module, e, 0)
                                if s:
                                    names.add(s)
                    res.ob(f"{f.qual}:disabled_tags")
                    if not set(want_disabled) <= names:
                        res.add("C15-DISABLED", f.qual, f"disabled:{sorted(names)}", f"{f.qual}: the isolated context must disable {sorted(want_disabled)}; found {sorted(names)}", f.file, cp.lineno)
                    # namespace provenance
                    ns = b.get("namespace")
                    res.ob(f"{f.qual}:namespace")
                    todo, seen = [ns], set()
                    while todo:
                        e = todo.pop()
                        if e is None or id(e) in seen:
                            continue
                        seen.add(id(e))
                        # (tag_namespace["macros"] is where `call` finds the macro definition;
                        # it holds parsed blocks, not caller variables)
                        bad = _mentions_caller_state(e, state=("locals", "scope", "loops", "counters"))
                        for b_ in bad:
                            res.add("C15-NS", f.qual, f"namespace<-{b_}", f"{f.qual}: caller state `{b_}` flows into the partial's namespace", f.file, getattr(e, "lineno", cp.lineno))
                        for b_ in _reads_through_context(e):
                            if b_ not in bad:
                                res.add("C15-NS", f.qual, f"namespace<-{b_}", f"{f.qual}: `{b_}` reads the caller's variables directly (not through an argument expression of the tag) into the partial's namespace", f.file, getattr(e, "lineno", cp.lineno))
                        for nm in names_in(e):
                            if nm == "context":
                                # bare `context` passed as a mapping / argument of a non-evaluate call
                                for n in ast.walk(e):
                                    if isinstance(n, ast.Call) and any(is_name(a, "context") for a in n.args) and callee_name(n) not in ("evaluate", "evaluate_async", "undefined"):
                                        res.add("C15-NS", f.qual, f"namespace<-{callee_name(n)}(context)", f"{f.qual}: `{text(n)[:60]}` passes the caller's context into the namespace", f.file, n.lineno)
                            for v in vals.get(nm, []):
                                todo.append(v)
                    # later stores into the namespace dicts must also be free of caller state
                    for st in walk_no_nested(f.node):
                        if isinstance(st, ast.Assign) and isinstance(st.targets[0], ast.Subscript) and isinstance(st.targets[0].value, ast.Name):
                            base = st.targets[0].value.id
                            if isinstance(ns, ast.Name) and (base == ns.id or any(base in names_in(v) for v in vals.get(ns.id, []))):
                                for b_ in _mentions_caller_state(st.value):
                                    res.add("C15-NS", f.qual, f"namespace[...]<-{b_}", f"{f.qual}: caller state `{b_}` stored into the partial's namespace", f.file, st.lineno)
                                for b_ in _reads_through_context(st.value):
                                    res.add("C15-NS", f.qual, f"namespace[...]<-{b_}", f"{f.qual}: `{b_}` reads the caller's variables directly (not through an argument expression of the tag) and stores the result in the isolated namespace — a parameter that was not passed picks up the caller's variable of the same name", f.file, st.lineno)
                    res.sample({"rule": "C15-COPY", "site": f.qual, "copy": text(cp)[:120]})

    check_node(RENDER, ("render_to_output", "render_to_output_async"), ("render_with_context", "render_with_context_async"), {"include"})
    check_node(CALL, ("render_to_output", "render_to_output_async"), ("render", "render_async"), {"include", "block"})

    # ---- C15-CTOR ------------------------------------------------------------
    # Judged on path conditions (sa/guards.py), not on how the branches are laid out: the two
    # contexts may be built by one shared constructor call or by one call per branch.
    from ..guards import canon, conditions

    cond_of = {id(st): [canon(c) for c in cs] for st, cs in conditions(copy_fn.node)}
    stmt_of_call = {}
    for st, _cs in conditions(copy_fn.node):
        for c in calls(st):
            stmt_of_call[id(c)] = st  # pre-order: the last statement recorded is the innermost
    ctor_calls = [c for c in calls(copy_fn.node) if text(c.func) in ("self.__class__", "RenderContext", "type(self)")]
    if not ctor_calls:
        raise AnchorMissing("RenderContext.copy constructs no context")
    ctx_names = set()
    for c in ctor_calls:
        st = stmt_of_call.get(id(c))
        if isinstance(st, ast.Assign) and isinstance(st.targets[0], ast.Name):
            ctx_names.add(st.targets[0].id)
        res.ob(f"{copy_fn.qual}:ctor", 2)
        kw = {k.arg: k.value for k in c.keywords}
        g = kw.get("globals")
        ok = isinstance(g, ast.Call) and callee_name(g) == "ReadOnlyChainMap" and len(g.args) == 2 and is_name(g.args[0], "namespace") and attr_chain(g.args[1]) == ["self", "globals"]
        if not ok:
            res.add("C15-CTOR", copy_fn.qual, f"globals={text(g) if g is not None else None}", "every copied context's globals must be ReadOnlyChainMap(namespace, self.globals)", copy_fn.file, c.lineno)
        for a_ in list(c.args) + [k.value for k in c.keywords]:
            for b_ in _mentions_caller_state(a_, "self"):
                where = "block-ctor" if "block_scope" in cond_of.get(id(st), []) else "ctor"
                res.add("C15-CTOR", copy_fn.qual, f"{where}<-{b_}", f"caller state `{b_}` flows into the new context's constructor ({'globals' if a_ is g else 'argument'}): the partial — or a template rendered from inside an inheritance block — would see the caller's local variables", copy_fn.file, c.lineno)
    # stores onto the new context after construction: only on the block-scope path, and only the
    # two sanctioned ones
    for st, _cs in conditions(copy_fn.node):
        if not isinstance(st, ast.Assign):
            continue
        for t in st.targets:
            base = t
            while isinstance(base, (ast.Attribute, ast.Subscript)):
                base = base.value
            if not (isinstance(t, (ast.Attribute, ast.Subscript)) and isinstance(base, ast.Name) and base.id in ctx_names):
                continue
            res.ob(f"{copy_fn.qual}:post-store")
            tgt = text(t)
            on_block_path = "block_scope" in cond_of.get(id(st), [])
            if not on_block_path:
                res.add("C15-CTOR", copy_fn.qual, f"post-assign:{text(st)[:50]}", f"copy modifies the new context outside the block-scope path: `{text(st)[:70]}` also reaches the isolated context of render / call", copy_fn.file, st.lineno)
                continue
            if tgt.endswith(".scope"):
                continue  # the one sanctioned place for the parent's scope
            if tgt.endswith(".tag_namespace['extends']") and text(st.value) == "self.tag_namespace['extends']":
                continue  # block bookkeeping of the inheritance chain, not variables
            if _shares_only_extends(repo, copy_fn, st, t):
                continue  # the same store, the key taken from a parameter that can only be "extends"
            leaks = _mentions_caller_state(st.value, "self")
            if leaks:
                res.add("C15-CTOR", copy_fn.qual, f"block-post:{tgt}<-{leaks[0]}", f"the block-scope path of copy stores `{leaks[0]}` in `{tgt}`", copy_fn.file, st.lineno)

    # ---- C15-FRESH -----------------------------------------------------------
    init = repo.own_method(CTX, "__init__")
    fresh = {"locals": False, "counters": False, "loops": False, "tag_namespace": False}
    for st in walk_no_nested(init.node):
        tgt = None
        if isinstance(st, ast.Assign):
            tgt, v = st.targets[0], st.value
        elif isinstance(st, ast.AnnAssign):
            tgt, v = st.target, st.value
        if tgt is not None and is_self_attr(tgt) and tgt.attr in fresh:
            fresh[tgt.attr] = isinstance(v, (ast.Dict, ast.List)) and not names_in(v) - {"defaultdict", "list"}
    for k, ok in fresh.items():
        res.ob(f"{init.qual}:{k}")
        if not ok:
            res.add("C15-FRESH", init.qual, k, f"RenderContext.__init__ must create a fresh `{k}` literal for every context", init.file, init.line)

    # ---- C15-INIT: the globals mapping is kept by reference ---------------------------------
    # `render` copies the context with a namespace that is still empty and stores the bound
    # variable / forloop in it afterwards; an empty ReadOnlyChainMap is falsy, so a truthiness
    # default (`globals or {}`) silently swaps it for a fresh dict.
    res.ob(f"{init.qual}:globals-by-reference")
    bad = globals_by_reference(repo)
    if bad is not None:
        gtxt, gline = bad
        res.add("C15-INIT", init.qual, f"globals={gtxt[:40]}", f"RenderContext.__init__ binds `self.globals = {gtxt}`: an empty (falsy) namespace chain is replaced by a different object, so the bound variable that `render ... with/for` adds to it afterwards never reaches the partial", init.file, gline)

    # ---- C15-PARENT: a copy reaches back into its parent for accounting only ---------------
    allowed_parent_attrs = {"_copy_depth", "loop_iteration_carry", "local_namespace_size_carry", "env", "template", "disabled_tags", "parent_context", "get_size_of_locals", "raise_for_loop_limit"}
    n_reads = 0
    parents: dict[int, ast.AST] = {}
    for f in repo.all_functions():
        if not f.module.name.startswith("liquid"):
            continue
        for n in ast.walk(f.node):
            for ch in ast.iter_child_nodes(n):
                parents[id(ch)] = n
        for n in ast.walk(f.node):
            if isinstance(n, ast.Attribute) and n.attr == "parent_context" and isinstance(n.ctx, ast.Load):
                n_reads += 1
                up = parents.get(id(n))
                if isinstance(up, ast.Attribute) and up.value is n and up.attr in allowed_parent_attrs:
                    continue
                if isinstance(up, ast.Compare) or (isinstance(up, (ast.If, ast.While, ast.IfExp, ast.BoolOp, ast.UnaryOp))):
                    continue  # presence test
                what = up.attr if isinstance(up, ast.Attribute) and up.value is n else "<escapes>"
                res.add("C15-PARENT", f.qual, f"parent_context.{what}", f"{f.qual} reaches into the parent (caller) context: `{text(up)[:70]}` — a copied context may consult its parent for resource accounting only; variables, loops and tag state of the caller must stay invisible", f.file, n.lineno)
    res.ob("parent_context-reads", 1)
    res.stats["parent_context_reads"] = n_reads
    pl = repo.own_method(CTX, "parentloop")
    res.ob(pl.qual)
    for r in [x for x in walk_no_nested(pl.node) if isinstance(x, ast.Return) and x.value is not None]:
        tv = text(r.value)
        if tv != "self.loops[-1]" and not tv.startswith("self.env.undefined("):
            res.add("C15-PARENT", pl.qual, f"returns:{tv[:40]}", f"parentloop() must answer from this context's own loop stack or with Undefined; it returns `{tv}`", pl.file, r.lineno)

    # ---- C15-DISABLED (block contexts inherit the restriction) -------------------------
    # `render` disables `include` on the partial's context.  A `{% block %}` of that partial (when it
    # extends a base) runs on a block-scope *copy*: unless the copy takes over the parent's
    # disabled tags when the caller passes none, `include` works again inside the block.
    res.ob(f"{copy_fn.qual}:block-disabled")
    inherits = False
    for st, _cs in conditions(copy_fn.node):
        cs = cond_of.get(id(st), [])
        if isinstance(st, ast.Assign) and any(is_name(t, "disabled_tags") for t in st.targets) and "self.disabled_tags" in text(st.value):
            if "block_scope" in cs and ("disabled_tags is None" in cs or "disabled_tags" not in " ".join(cs).replace("disabled_tags is None", "")):
                inherits = True
    for c in ctor_calls:
        kw = {k.arg: k.value for k in c.keywords}
        if "disabled_tags" in kw and "self.disabled_tags" in text(kw["disabled_tags"]):
            inherits = True
        if "disabled_tags" not in kw:
            inherits = False
    if not inherits:
        res.add(
            "C15-DISABLED",
            copy_fn.qual,
            "block-scope-drops-disabled",
            "RenderContext.copy(block_scope=True) builds the block's context without inheriting the parent context's disabled tags when the caller passes none: a partial rendered with `render` can use `include` from inside an inheritance block",
            copy_fn.file,
            copy_fn.line,
        )

    # ---- C15-DISABLED (Node.render) ---------------------------------------------
    for m, target in (("render", "render_to_output"), ("render_async", "render_to_output_async")):
        f = repo.own_method("liquid.ast.Node", m)
        res.ob(f.qual)
        seen = {"ok": False}

        def gen(st):
            if isinstance(st, ast.Expr) and isinstance(st.value, ast.Call) and callee_name(st.value) == "raise_for_disabled":
                return {"checked"}
            return set()

        def gen_cond(test, truth):
            if attr_chain(test) == ["context", "disabled_tags"] and not truth:
                return {"checked"}  # nothing is disabled
            return set()

        def visit(node, st):
            if isinstance(node, ast.Return):
                for c in node_calls(node):
                    if callee_name(c) == target:
                        seen["ok"] = "checked" in st

        MustFlow(gen=gen, gen_cond=gen_cond, visit=visit).run(f.node)
        if not seen["ok"]:
            res.add("C15-DISABLED", f.qual, "check-before-delegate", f"{f.qual} must call raise_for_disabled(context.disabled_tags) before {target}", f.file, f.line)
    rfd = repo.own_method("liquid.ast.Node", "raise_for_disabled")
    res.ob(rfd.qual)
    if not any(isinstance(n, ast.Raise) and "DisabledTagError" in text(n) for n in ast.walk(rfd.node)) or "in disabled_tags" not in text(rfd.node):
        res.add("C15-DISABLED", rfd.qual, "shape", "raise_for_disabled must raise DisabledTagError when the tag name is in disabled_tags", rfd.file, rfd.line)
    for c in repo.subclasses("liquid.ast.Node", strict=True):
        for m in ("render", "render_async", "raise_for_disabled"):
            if m in c.methods:
                res.ob(f"{c.qual}.{m}")
                res.add("C15-DISABLED", c.qual, f"overrides-{m}", f"{c.qual} overrides Node.{m} and can bypass the disabled-tag check", c.file, c.methods[m].line)
    res.ob("Node-subclasses")
    return res


def selftest(repo: Repo):
    from ..selftest import Variant, text_edit

    def v(name, rel, old, new, expect, count=1):
        return lambda: Variant(name, text_edit(repo, rel, old, new, count), expect)

    R = "liquid/builtin/tags/render_tag.py"
    M = "liquid/extra/tags/macro_tag.py"
    C = "liquid/context.py"
    return [
        v("render-block-scope", R, "            carry_loop_iterations=True,\n            template=template,\n        )", "            carry_loop_iterations=True,\n            template=template,\n            block_scope=True,\n        )", "C15-COPY", count=2),
        v("render-on-caller-context", R, "            template.render_with_context(ctx, buffer, partial=True, block_scope=True)\n\n        return True", "            template.render_with_context(context, buffer, partial=True, block_scope=True)\n\n        return True", "C15-COPY"),
        v("render-allows-include", R, "disabled_tags=[TAG_INCLUDE],", "disabled_tags=[],", "C15-DISABLED", count=2),
        v("call-allows-include", M, 'disabled_tags = ["include", "block"]', 'disabled_tags = ["block"]', "C15-DISABLED"),
        v("copy-passes-scope", C, "        else:\n            ctx = self.__class__(\n                template or self.template,\n                globals=ReadOnlyChainMap(namespace, self.globals),", "        else:\n            ctx = self.__class__(\n                template or self.template,\n                globals=ReadOnlyChainMap(namespace, self.scope),", "C15-CTOR"),
        v("copy-shares-locals", C, "                local_namespace_size_carry=self.get_size_of_locals(),\n            )\n\n        return ctx", "                local_namespace_size_carry=self.get_size_of_locals(),\n            )\n            ctx.locals = self.locals\n\n        return ctx", "C15-CTOR"),
        v("namespace-leaks-locals", R, "        args = {arg.name: arg.value.evaluate(context) for arg in self.args}\n", "        args = {**context.locals, **{arg.name: arg.value.evaluate(context) for arg in self.args}}\n", "C15-NS"),
        v("macro-extends-instead-of-copy", M, "        macro_context = context.copy(\n            namespace=namespace,\n            disabled_tags=self.disabled_tags,\n            carry_loop_iterations=True,\n        )\n\n        return macro.block.render(macro_context, buffer)", "        with context.extend(namespace) as macro_context:\n            return macro.block.render(macro_context, buffer)", "C15-COPY"),
        v("node-render-skips-check", "liquid/ast.py", "        if context.disabled_tags:\n            self.raise_for_disabled(context.disabled_tags)\n        return self.render_to_output(context, buffer)", "        return self.render_to_output(context, buffer)", "C15-DISABLED"),
        v("block-copy-scope-in-globals", C, "                disabled_tags = self.disabled_tags\n            ctx = self.__class__(\n                template or self.template,\n                globals=ReadOnlyChainMap(namespace, self.globals),", "                disabled_tags = self.disabled_tags\n            ctx = self.__class__(\n                template or self.template,\n                globals=ReadOnlyChainMap(namespace, self.scope),", "C15-CTOR"),
        v("block-copy-forgets-disabled-tags", C, "            if disabled_tags is None:\n                # A block is part of this template. What this context must not do,\n                # like `include` from a rendered partial, the block must not do either.\n                disabled_tags = self.disabled_tags\n", "", "C15-DISABLED"),
        v("init-globals-truthiness", C, "globals if globals is not None else {}", "globals or {}", "C15-INIT"),
        v("parentloop-falls-back-to-parent", C, '            return self.env.undefined("parentloop", token=None)', '            if self.parent_context is not None:\n                return self.parent_context.parentloop()\n            return self.env.undefined("parentloop", token=None)', "C15-PARENT"),
        v("get-falls-back-to-parent-locals", C, "    def parentloop(self) -> Union[Undefined, object]:", "    def _caller_local(self, key: str) -> object:\n        return self.parent_context.locals.get(key) if self.parent_context else None\n\n    def parentloop(self) -> Union[Undefined, object]:", "C15-PARENT"),
        v("init-shares-counters", C, "        self.counters: dict[str, int] = {}", "        self.counters: dict[str, int] = parent_context.counters if parent_context else {}", "C15-FRESH"),
        v("include-overrides-render", "liquid/builtin/tags/include_tag.py", "    def __str__(self) -> str:\n        var = f\" with {self.var}\" if self.var else \"\"", "    def render(self, context, buffer):\n        return self.render_to_output(context, buffer)\n\n    def __str__(self) -> str:\n        var = f\" with {self.var}\" if self.var else \"\"", "overrides-render"),
    ]
