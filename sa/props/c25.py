"""C25 — built-in filters honour their documented contracts (clauses).

The property relates returned *values* to argument values; most of it is out of reach of a shape
rule.  Six of its sentences, however, say "this filter IS that operation", and for those the
implementation's delegation form is the whole content of the sentence (Python's ``str`` methods,
``len``, ``min``/``max``/``abs``, ``math.ceil``/``floor`` and ``decimal.Decimal`` arithmetic are the
trusted meaning of "the corresponding string operation" / "exact integer or decimal arithmetic"):

  C25-DELEG   ``upcase / downcase / capitalize / strip / lstrip / rstrip`` return exactly
              ``val.upper() / lower() / capitalize() / strip() / lstrip() / rstrip()`` — no
              arguments, nothing else — behind the ``string_filter`` coercion.
  C25-SIZE    ``size`` returns ``len(obj)`` and, on ``TypeError`` only, the constant 0.
  C25-ARITH   operator table: ``plus → num + other``, ``minus → num - other``, ``times → num * other``,
              ``modulo → num % other``, ``divided_by → num // other`` for two ints and ``num / other``
              otherwise, in this operand order; on the non-integer path of plus/minus/times/modulo
              both operands go through ``decimal.Decimal(str(x))`` (exact decimal arithmetic, no
              binary float operation); ``abs → abs(num)``, ``ceil → math.ceil(num)``,
              ``floor → math.floor(num)``, ``at_least → max(num, other)``, ``at_most → min(num, other)``;
              the second operand is ``num_arg(other, default=0)`` and every one of them sits
              behind ``math_filter``.
  C25-TRUNC   ``truncate_chars(val, num, end)`` returns ``val`` unchanged iff ``len(val) <= num`` and
              otherwise ``val[:max(num - len(end), 0)] + end`` — hence a string that ends in the
              ellipsis and is no longer than ``max(num, len(end))``; ``truncate`` hands it
              ``(val, num, end)`` in that order after converting ``num`` with ``to_int`` and ``end``
              with ``str``.
  C25-SELECT  ``first`` returns ``getitem(left, 0)`` and ``last`` ``getitem(obj, -1)`` (``None`` for
              strings and on Type/Key/IndexError).
  C25-DEFAULT (path-sensitive kind inference) with a nil left value every feasible exit of
              ``default`` returns the ``default_`` argument itself.
Not decided (value level): split/join round trip, membership and order of the array filters
(that they build new lists is C17-INPUT), slice, truncatewords' word count, round, rounding of
the float results, ``default`` for empty containers / false / undefined.
"""

from __future__ import annotations

import ast

from ..astutil import call_recv, callee_name, handler_types, is_name, text
from ..core import Result
from ..model import AnchorMissing, Repo, body_without_docstring, walk_no_nested
from ..registry import Registry

PID = "C25"
MIN_OBLIGATIONS = 30

DELEG = {"upcase": "upper", "downcase": "lower", "capitalize": "capitalize", "strip": "strip", "lstrip": "lstrip", "rstrip": "rstrip"}
BINOPS = {"plus": ast.Add, "minus": ast.Sub, "times": ast.Mult, "modulo": ast.Mod}
UNARY = {"abs": ("abs", None), "ceil": ("ceil", "math"), "floor": ("floor", "math")}
EXTREMA = {"at_least": "max", "at_most": "min"}


def _returns(fn: ast.AST) -> list[ast.Return]:
    return [n for n in walk_no_nested(fn) if isinstance(n, ast.Return)]


def _is_decimal_of_str(e: ast.AST, name: str) -> bool:
    """decimal.Decimal(str(<name>)) / Decimal(str(<name>))"""
    return (
        isinstance(e, ast.Call)
        and callee_name(e) == "Decimal"
        and len(e.args) == 1
        and isinstance(e.args[0], ast.Call)
        and is_name(e.args[0].func, "str")
        and len(e.args[0].args) == 1
        and is_name(e.args[0].args[0], name)
    )


def run(repo: Repo) -> Result:
    res = Result(PID)
    res.rules = ["C25-DELEG", "C25-SIZE", "C25-ARITH", "C25-TRUNC", "C25-SELECT", "C25-DEFAULT"]
    res.explanation = (
        "delegation-form / operator tables for the filters whose documented contract is 'behaves like operation X' "
        "(the registry resolves each filter name to its implementation through the decorator stack), a length argument on "
        "truncate_chars' two exits, and path-sensitive kind inference on `default`"
    )
    res.assumptions = [
        "Python's str methods, len, min/max/abs, math.ceil/floor and decimal.Decimal are the trusted meaning of 'the corresponding string operation' and 'exact integer or decimal arithmetic'",
        "value-level clauses (array membership/order, split/join, slice, truncatewords, round) are not decided",
    ]
    reg = Registry(repo)

    def impl(name: str):
        fi = reg.filters.get(name)
        if fi is None:
            raise AnchorMissing(f"filter `{name}` is not registered any more")
        return fi

    # ---- C25-DELEG -----------------------------------------------------------------------
    for name, meth in DELEG.items():
        fi = impl(name)
        f = fi.func
        res.ob(f"deleg:{name}", 2)
        if "string_filter" not in fi.decorators:
            res.add("C25-DELEG", f.qual, "not-string-filter", f"filter `{name}` ({f.qual}) is not behind @string_filter: a non-string left value is not coerced before `.{meth}()`", f.file, f.line)
        params = [p for p in f.params()]
        body = body_without_docstring(f.node)
        ok = (
            len(body) == 1
            and isinstance(body[0], ast.Return)
            and isinstance(body[0].value, ast.Call)
            and isinstance(body[0].value.func, ast.Attribute)
            and body[0].value.func.attr == meth
            and params
            and is_name(call_recv(body[0].value), params[0])
            and not body[0].value.args
            and not body[0].value.keywords
        )
        if not ok:
            res.add("C25-DELEG", f.qual, f"{name}!={meth}", f"filter `{name}` must be exactly `return {params[0] if params else 'val'}.{meth}()` (the corresponding string operation); found `{text(body[-1])[:80] if body else ''}`", f.file, f.line)
        res.sample({"rule": "C25-DELEG", "filter": name, "operation": f"str.{meth}()"})

    # ---- C25-SIZE ------------------------------------------------------------------------
    f = impl("size").func
    res.ob("size", 2)
    p0 = f.params()[0]
    body = body_without_docstring(f.node)
    ok = False
    if len(body) == 1 and isinstance(body[0], ast.Try) and not body[0].orelse and not body[0].finalbody:
        tr = body[0]
        t_ok = len(tr.body) == 1 and isinstance(tr.body[0], ast.Return) and isinstance(tr.body[0].value, ast.Call) and is_name(tr.body[0].value.func, "len") and len(tr.body[0].value.args) == 1 and is_name(tr.body[0].value.args[0], p0)
        h_ok = len(tr.handlers) == 1 and handler_types(tr.handlers[0]) == ["TypeError"] and len(tr.handlers[0].body) == 1 and isinstance(tr.handlers[0].body[0], ast.Return) and isinstance(tr.handlers[0].body[0].value, ast.Constant) and tr.handlers[0].body[0].value.value == 0 and not isinstance(tr.handlers[0].body[0].value.value, bool)
        ok = t_ok and h_ok
    if not ok:
        res.add("C25-SIZE", f.qual, "shape", f"`size` must be `try: return len({p0})` / `except TypeError: return 0` (the length of sized values and 0 otherwise — any other handler class also hides UndefinedError and arithmetic errors)", f.file, f.line)

    # ---- C25-ARITH -----------------------------------------------------------------------
    def second_operand_converted(f, other: str) -> bool:
        return any(
            isinstance(st, ast.Assign)
            and is_name(st.targets[0], other)
            and isinstance(st.value, ast.Call)
            and callee_name(st.value) == "num_arg"
            and st.value.args
            and is_name(st.value.args[0], other)
            and any(k.arg == "default" and isinstance(k.value, ast.Constant) and k.value.value == 0 for k in st.value.keywords)
            for st in walk_no_nested(f.node)
        )

    from ..normalize import desugar_operator_calls, nfunc

    for name in list(BINOPS) + ["divided_by"] + list(UNARY) + list(EXTREMA):
        fi = impl(name)
        f = nfunc(repo, fi.func, aliases=False)  # private helpers inlined ...
        desugar_operator_calls(f.node)  # ... and operator.add(a, b) read as a + b
        res.ob(f"arith:{name}", 3)
        if "math_filter" not in fi.decorators:
            res.add("C25-ARITH", f.qual, "not-math-filter", f"filter `{name}` is not behind @math_filter (left value not converted to a number)", f.file, f.line)
        params = f.params()
        num = params[0]
        other = params[1] if len(params) > 1 else None
        rets = _returns(f.node)
        if name in UNARY:
            fn_name, mod = UNARY[name]
            ok = len(rets) == 1 and isinstance(rets[0].value, ast.Call) and callee_name(rets[0].value) == fn_name and len(rets[0].value.args) == 1 and is_name(rets[0].value.args[0], num) and (mod is None or text(rets[0].value.func) == f"{mod}.{fn_name}")
            if not ok:
                res.add("C25-ARITH", f.qual, f"{name}:shape", f"`{name}` must return `{(mod + '.') if mod else ''}{fn_name}({num})`; found {[text(r.value)[:50] for r in rets]}", f.file, f.line)
            continue
        if other is None:
            res.add("C25-ARITH", f.qual, f"{name}:signature", f"`{name}` must take (num, other)", f.file, f.line)
            continue
        # the second operand is whatever name holds num_arg(<argument>, default=0) — the parameter
        # itself (rebound) or a fresh local (when the conversion is written inside a helper call)
        conv = [
            st.targets[0].id
            for st in walk_no_nested(f.node)
            if isinstance(st, ast.Assign)
            and len(st.targets) == 1
            and isinstance(st.targets[0], ast.Name)
            and isinstance(st.value, ast.Call)
            and callee_name(st.value) == "num_arg"
            and st.value.args
            and is_name(st.value.args[0], other)
            and any(k.arg == "default" and isinstance(k.value, ast.Constant) and k.value.value == 0 and not isinstance(k.value.value, bool) for k in st.value.keywords)
        ]
        if len(conv) != 1:
            res.add("C25-ARITH", f.qual, f"{name}:operand-conversion", f"`{name}` must convert its argument with `{other} = num_arg({other}, default=0)`", f.file, f.line)
        else:
            other = conv[0]
        if name in EXTREMA:
            fn_name = EXTREMA[name]
            ok = len(rets) == 1 and isinstance(rets[0].value, ast.Call) and is_name(rets[0].value.func, fn_name) and len(rets[0].value.args) == 2 and {text(a) for a in rets[0].value.args} == {num, other} and not rets[0].value.keywords
            if not ok:
                res.add("C25-ARITH", f.qual, f"{name}:shape", f"`{name}` must return `{fn_name}({num}, {other})`; found {[text(r.value)[:50] for r in rets]}", f.file, f.line)
            continue
        # binary operators: every return is `num OP other` (int path) or float(Decimal(str(num)) OP Decimal(str(other)))
        want = BINOPS.get(name)
        n_int = n_dec = 0
        for r in rets:
            v = r.value
            if isinstance(v, ast.Call) and is_name(v.func, "float") and len(v.args) == 1:
                v = v.args[0]
                if isinstance(v, ast.BinOp) and _is_decimal_of_str(v.left, num) and _is_decimal_of_str(v.right, other) and want is not None and isinstance(v.op, want):
                    n_dec += 1
                    continue
                res.add("C25-ARITH", f.qual, f"{name}:decimal-path:{text(r.value)[:40]}", f"`{name}`: the non-integer result must be `float(Decimal(str({num})) {_sym(want)} Decimal(str({other})))` — exact decimal arithmetic in this operand order; found `{text(r.value)[:80]}`", f.file, r.lineno)
                continue
            if isinstance(v, ast.BinOp) and is_name(v.left, num) and is_name(v.right, other):
                if name == "divided_by":
                    guard_int = _under_two_int_guard(f.node, r, num, other)
                    if isinstance(v.op, ast.FloorDiv) and guard_int:
                        n_int += 1
                        continue
                    if isinstance(v.op, ast.Div) and not guard_int:
                        n_dec += 1
                        continue
                elif want is not None and isinstance(v.op, want) and _under_two_int_guard(f.node, r, num, other):
                    n_int += 1
                    continue
            res.add("C25-ARITH", f.qual, f"{name}:return:{text(r.value)[:40]}", f"`{name}` returns `{text(r.value)[:80]}`: not `{num} {_sym(want) if want else '// or /'} {other}` under the two-integer test nor the decimal form", f.file, r.lineno)
        if n_int != 1 or n_dec != 1:
            res.add("C25-ARITH", f.qual, f"{name}:paths:{n_int}/{n_dec}", f"`{name}` must have exactly one integer result and one non-integer result (found {n_int}/{n_dec})", f.file, f.line)
        res.sample({"rule": "C25-ARITH", "filter": name, "int_path": n_int, "decimal_or_true_division_path": n_dec})

    # ---- C25-TRUNC -----------------------------------------------------------------------
    tc = repo.func("liquid.utils.text.truncate_chars")
    res.ob(tc.qual, 4)
    ps = tc.params()
    if len(ps) != 3:
        raise AnchorMissing("truncate_chars no longer takes (val, num, end)")
    val, num, end = ps
    alias = {}
    for st in walk_no_nested(tc.node):
        if isinstance(st, ast.Assign) and len(st.targets) == 1 and isinstance(st.targets[0], ast.Name) and isinstance(st.value, ast.Call) and is_name(st.value.func, "len") and len(st.value.args) == 1 and isinstance(st.value.args[0], ast.Name):
            alias[st.targets[0].id] = st.value.args[0].id

    def len_of(e) -> str | None:
        if isinstance(e, ast.Name) and e.id in alias:
            return alias[e.id]
        if isinstance(e, ast.Call) and is_name(e.func, "len") and len(e.args) == 1 and isinstance(e.args[0], ast.Name):
            return e.args[0].id
        return None

    def short_enough(test) -> bool:
        """test  <=>  len(val) <= num"""
        if isinstance(test, ast.UnaryOp) and isinstance(test.op, ast.Not):
            t = test.operand
            return isinstance(t, ast.Compare) and len(t.ops) == 1 and ((len_of(t.left) == val and isinstance(t.ops[0], ast.Gt) and is_name(t.comparators[0], num)) or (is_name(t.left, num) and isinstance(t.ops[0], ast.Lt) and len_of(t.comparators[0]) == val))
        if isinstance(test, ast.Compare) and len(test.ops) == 1:
            l, op, r = test.left, test.ops[0], test.comparators[0]
            return (len_of(l) == val and isinstance(op, ast.LtE) and is_name(r, num)) or (is_name(l, num) and isinstance(op, ast.GtE) and len_of(r) == val)
        return False

    body = body_without_docstring(tc.node)
    guard = next((st for st in body if isinstance(st, ast.If)), None)
    if guard is None or not short_enough(guard.test) or not (len(guard.body) == 1 and isinstance(guard.body[0], ast.Return) and is_name(guard.body[0].value, val)) or guard.orelse:
        res.add("C25-TRUNC", tc.qual, "unchanged-iff-short", f"truncate_chars must return `{val}` unchanged exactly when `len({val}) <= {num}` (found `if {text(guard.test) if guard else '?'}`): a string of exactly the requested length is not 'longer than' it", tc.file, guard.lineno if guard else tc.line)
    last = body[-1] if body else None
    ok = False
    if isinstance(last, ast.Return) and last.value is not None:
        v = last.value
        parts = None
        if isinstance(v, ast.JoinedStr) and len(v.values) == 2 and all(isinstance(x, ast.FormattedValue) and x.conversion == -1 and x.format_spec is None for x in v.values):
            parts = [v.values[0].value, v.values[1].value]
        elif isinstance(v, ast.BinOp) and isinstance(v.op, ast.Add):
            parts = [v.left, v.right]
        if parts and is_name(parts[1], end):
            sl = parts[0]
            if isinstance(sl, ast.Subscript) and is_name(sl.value, val) and isinstance(sl.slice, ast.Slice) and sl.slice.lower is None and sl.slice.step is None:
                up = sl.slice.upper
                # max(num - len(end), 0)  (either argument order)
                if isinstance(up, ast.Call) and is_name(up.func, "max") and len(up.args) == 2 and not up.keywords:
                    a, b = up.args
                    for x, y in ((a, b), (b, a)):
                        if isinstance(y, ast.Constant) and y.value == 0 and isinstance(x, ast.BinOp) and isinstance(x.op, ast.Sub) and is_name(x.left, num) and len_of(x.right) == end:
                            ok = True
    if not ok:
        res.add("C25-TRUNC", tc.qual, "truncated-form", f"truncate_chars must end in `return {val}[:max({num} - len({end}), 0)] + {end}` (a negative bound would count from the end of the string and exceed the documented length); found `{text(last)[:90] if last is not None else ''}`", tc.file, last.lineno if last is not None else tc.line)
    from ..normalize import nfunc as _nfunc25

    tr0 = impl("truncate").func
    tr = _nfunc25(repo, tr0, aliases=False)  # a private argument-validation helper is inlined
    res.ob(tr.qual, 2)
    tcalls = [c for c in ast.walk(tr.node) if isinstance(c, ast.Call) and callee_name(c) == "truncate_chars"]
    tp = tr0.params()
    binds25: dict[str, list] = {}
    for st in ast.walk(tr.node):
        if isinstance(st, ast.Assign) and len(st.targets) == 1 and isinstance(st.targets[0], ast.Name):
            binds25.setdefault(st.targets[0].id, []).append(st.value)

    def comes_from(e, conv: tuple, param: str, depth=0) -> bool:
        """e is conv(<param>) — directly, or a local bound only from such calls / such locals"""
        if isinstance(e, ast.Call) and callee_name(e) in conv and e.args:
            a0 = e.args[0]
            return is_name(a0, param) or (isinstance(a0, ast.Name) and depth < 3 and a0.id in binds25 and all(is_name(v, param) for v in binds25[a0.id]))
        if isinstance(e, ast.Call) and isinstance(e.func, ast.Name) and e.func.id.startswith("_") and len(e.args) == 1 and not e.keywords and is_name(e.args[0], param) and depth < 3:
            # a private helper of the module whose every return is conv(<its own parameter>)
            h = repo.resolve_in(tr0.module, e.func.id)
            if hasattr(h, "node") and isinstance(h.node, ast.FunctionDef):
                hp = h.params()
                rets_h = [r.value for r in ast.walk(h.node) if isinstance(r, ast.Return)]
                return len(hp) == 1 and bool(rets_h) and all(isinstance(r, ast.Call) and callee_name(r) in conv and r.args and is_name(r.args[0], hp[0]) for r in rets_h)
        if isinstance(e, ast.Name) and depth < 3 and e.id in binds25:
            vals = binds25[e.id]
            return bool(vals) and all(comes_from(v, conv, param, depth + 1) for v in vals)
        return False

    if len(tcalls) != 1 or len(tcalls[0].args) != 3 or tcalls[0].keywords or not is_name(tcalls[0].args[0], tp[0]):
        res.add("C25-TRUNC", tr.qual, "call", f"`truncate` must end in `truncate_chars({', '.join(tp[:3])})`", tr.file, tr.line)
    elif not (comes_from(tcalls[0].args[1], ("to_int",), tp[1]) and comes_from(tcalls[0].args[2], ("str", "to_str", "soft_str"), tp[2])):
        res.add("C25-TRUNC", tr.qual, "conversions", f"`truncate` must convert its length with to_int and its ellipsis with str before calling truncate_chars", tr.file, tr.line)

    # ---- C25-SELECT ----------------------------------------------------------------------
    for name, idx in (("first", 0), ("last", -1)):
        f = impl(name).func
        res.ob(f"select:{name}")
        p0 = f.params()[0]
        gi = [c for c in ast.walk(f.node) if isinstance(c, ast.Call) and callee_name(c) == "getitem"]
        ok = len(gi) == 1 and len(gi[0].args) == 2 and is_name(gi[0].args[0], p0) and _const_int(gi[0].args[1]) == idx
        if not ok:
            res.add("C25-SELECT", f.qual, f"{name}:index", f"`{name}` must select `getitem({p0}, {idx})`; found {[text(c)[:40] for c in gi]}", f.file, f.line)

    # ---- C25-DEFAULT ---------------------------------------------------------------------
    from ..astutil import local_names as _local_names
    from ..kinds import feasible, path_states

    df = impl("default").func
    dps = df.params()
    obj, dflt = dps[0], dps[1]
    exits = {id(n.value): n for n in walk_no_nested(df.node) if isinstance(n, ast.Return) and n.value is not None}
    res.ob(f"default:{df.qual}", 2)
    hits = [(n, st, fl) for n, st, fl in path_states(df.node, {obj: frozenset("N")}, lambda n: id(n) in exits) if feasible(fl, st, [obj] + sorted(_local_names(df.node)))]
    if not hits:
        raise AnchorMissing(f"{df.qual}: no exit reachable with a nil left value; re-derive C25-DEFAULT")
    bad = sorted({(exits[id(n)].lineno, text(exits[id(n)])) for n, st, fl in hits if not is_name(exits[id(n)].value, dflt)})
    for ln, src in bad:
        res.add("C25-DEFAULT", df.qual, f"nil:{src[:40]}", f"`default` with a nil left value can leave through `{src}` instead of returning its argument `{dflt}`", df.file, ln)
    return res


def _sym(op) -> str:
    return {ast.Add: "+", ast.Sub: "-", ast.Mult: "*", ast.Mod: "%"}.get(op, "?")


def _const_int(e):
    if isinstance(e, ast.Constant) and isinstance(e.value, int):
        return e.value
    if isinstance(e, ast.UnaryOp) and isinstance(e.op, ast.USub) and isinstance(e.operand, ast.Constant):
        return -e.operand.value
    return None


def _under_two_int_guard(fn: ast.AST, ret: ast.Return, a: str, b: str) -> bool:
    """``ret`` is in the body of an ``if isinstance(a, int) and isinstance(b, int)`` (either order)."""
    for n in ast.walk(fn):
        if isinstance(n, ast.If) and any(x is ret for s in n.body for x in [s] + list(ast.walk(s))):
            t = n.test
            if isinstance(t, ast.BoolOp) and isinstance(t.op, ast.And) and len(t.values) == 2:
                got = set()
                for v in t.values:
                    if isinstance(v, ast.Call) and is_name(v.func, "isinstance") and len(v.args) == 2 and isinstance(v.args[0], ast.Name) and is_name(v.args[1], "int"):
                        got.add(v.args[0].id)
                if got == {a, b}:
                    return True
    return False


def selftest(repo: Repo):
    from ..selftest import Variant, text_edit

    def v(name, rel, old, new, expect, count=1):
        return lambda: Variant(name, text_edit(repo, rel, old, new, count), expect)

    S = "liquid/builtin/filters/string.py"
    M = "liquid/builtin/filters/math.py"
    return [
        v("upcase-title", S, "    return val.upper()", "    return val.title()", "C25-DELEG"),
        v("strip-chars", S, "    return val.strip()", "    return val.strip(' ')", "C25-DELEG"),
        v("lstrip-is-strip", S, "    return val.lstrip()", "    return val.strip()", "C25-DELEG"),
        v("size-catches-everything", "liquid/builtin/filters/misc.py", "        return len(obj)\n    except TypeError:", "        return len(obj)\n    except Exception:", "C25-SIZE"),
        v("minus-operands-swapped", M, "        return num - other", "        return other - num", "C25-ARITH"),
        v("minus-decimal-swapped", M, "decimal.Decimal(str(num)) - decimal.Decimal(str(other))", "decimal.Decimal(str(other)) - decimal.Decimal(str(num))", "C25-ARITH"),
        v("plus-float-arithmetic", M, "    return float(decimal.Decimal(str(num)) + decimal.Decimal(str(other)))", "    return float(num) + float(other)", "C25-ARITH"),
        v("times-is-plus", M, "        return num * other", "        return num + other", "C25-ARITH"),
        v("at-least-is-min", M, "    return max(num, other)", "    return min(num, other)", "C25-ARITH"),
        v("ceil-is-round", M, "    return math.ceil(num)", "    return round(num)", "C25-ARITH"),
        v("divided-by-true-division-for-ints", M, "            return num // other", "            return num / other", "C25-ARITH"),
        v("modulo-default-one", M, "    other = num_arg(other, default=0)\n\n    try:\n        if isinstance(num, int) and isinstance(other, int):\n            return num % other", "    other = num_arg(other, default=1)\n\n    try:\n        if isinstance(num, int) and isinstance(other, int):\n            return num % other", "C25-ARITH"),
        v("truncate-strictly-shorter", "liquid/utils/text.py", "    if val_length <= num:", "    if val_length < num:", "C25-TRUNC"),
        v("truncate-negative-bound", "liquid/utils/text.py", "val[:max(num - end_length, 0)]", "val[:num - end_length]", "C25-TRUNC"),
        v("truncate-args-swapped", S, "    return truncate_chars(val, num, end)", "    return truncate_chars(val, num)", "C25-TRUNC"),
        v("last-is-first", "liquid/builtin/filters/array.py", "        return getitem(obj, -1)", "        return getitem(obj, 0)", "C25-SELECT"),
        v("default-keeps-nil", "liquid/builtin/filters/misc.py", "    if _obj in (None, False) or is_empty(_obj):\n        return default_", "    if _obj is False or is_empty(_obj):\n        return default_", "C25-DEFAULT"),
    ]
