"""C20 — reported locations point at the reported item (clauses).

  C20-TOKEN  for every ``Token(...)`` built by the template lexer, the expression tokenizer
             and the liquid-tag tokenizer: when the token's value is ``match.group(G)`` its
             ``start_index`` is ``[base +] match.start(G)`` (same group; the whole match for
             ``match.group()``); ``base`` is the parent token's ``start_index`` exactly when
             ``source`` is the parent's ``source`` (sub-tokenizers), and absent exactly when
             ``source`` is the text being matched.  Reviewed rows: quoted literals
             (string / ['ident'] / [index]) carry the inner group as value and the start of the
             whole literal as offset — the offset the test-suite pins.
  C20-SPAN   every ``Span(...)`` of static analysis and tag analysis takes the template name in
             scope at that visit and ``<item>.token.start_index`` / ``<token>.start_index`` of
             the very item whose name is the reported key.
  C20-ERR    ``LiquidError.detailed_message`` / ``context`` only index into ``token.source`` with
             ``token.start_index`` after the ``start_index < 0`` (end-of-input) guard; every
             ``LiquidError`` subclass raised while parsing is given ``token=`` (a position inside
             its own source by C20-TOKEN) or ``token=None``.
Not decided: alignment of names and offsets through whitespace trimming of text tokens
(text is not a reported item).
"""

from __future__ import annotations

import ast

from ..astutil import call_recv, attr_chain, bind_args, callee_name, calls, is_name, names_in, text
from ..core import Result
from ..model import AnchorMissing, Repo, fold_str, walk_no_nested

PID = "C20"
MIN_OBLIGATIONS = 30
TOKENIZERS = [
    "liquid.lex._tokenize_template",
    "liquid.builtin.expressions._tokenize.tokenize",
    "liquid.builtin.tags.liquid_tag._tokenize_liquid_expression",
]
REVIEWED_INNER_GROUPS = {"path_index", "identquoted", "quoted"}  # delimited literals
WHOLE = "<whole-match>"
MATCH_VAR = ["match"]  # the loop variable of `for <m> in rules.finditer(<text>)` in the function at hand


def _group_of_group_call(repo, mod, e):
    """match.group() -> WHOLE ; match.group(X) -> folded X ; else None"""
    if isinstance(e, ast.Call) and callee_name(e) == "group" and isinstance(e.func, ast.Attribute) and is_name(call_recv(e), MATCH_VAR[0]):
        if not e.args:
            return WHOLE
        return fold_str(repo, mod, e.args[0], 0)
    return None


def _start_expr(repo, mod, e):
    """[base +] match.start(G) / match.end(G)  ->  (base_text|None, kind, group)"""
    base = None
    if isinstance(e, ast.BinOp) and isinstance(e.op, ast.Add):
        base, e = text(e.left), e.right
    if isinstance(e, ast.Call) and callee_name(e) in ("start", "end") and isinstance(e.func, ast.Attribute) and is_name(call_recv(e), MATCH_VAR[0]):
        g = WHOLE if not e.args else fold_str(repo, mod, e.args[0], 0)
        return base, callee_name(e), g
    return base, None, None


def _nearest_binding(fn, use, name):
    """Value of the last ``name = ...`` that precedes *use* in a statement list enclosing it
    (the reaching definition on the straight-line path), or None."""
    best = None

    def rec(body) -> bool:
        nonlocal best
        for i, st in enumerate(body):
            if any(n is use for n in ast.walk(st)):
                # bindings earlier in this same list
                for prev in body[:i]:
                    if isinstance(prev, ast.Assign) and any(is_name(t, name) for t in prev.targets):
                        best = prev.value
                # descend for a closer one
                for fld in ("body", "orelse", "finalbody"):
                    sub = getattr(st, fld, None)
                    if isinstance(sub, list):
                        rec(sub)
                for h in getattr(st, "handlers", []) or []:
                    rec(h.body)
                return True
        return False

    rec(fn.body)
    return best


def check_error_context(repo: Repo, res: Result, rule: str) -> None:
    """``LiquidError._error_context(text, index)`` finds the line of ``index`` by adding up line
    lengths: the lines must come from ``text.splitlines(keepends=True)`` (only then do the lengths
    add up to ``len(text)``; without the line ends an index within the last <number of newlines>
    characters matches no line and the helper raises ValueError), each length is added exactly once
    per line, and the line is the first whose running total exceeds the index.  Warn mode formats
    every error it suppresses, so this helper runs on every suppressed error (shared with C03)."""
    f = repo.own_method("liquid.exceptions.LiquidError", "_error_context")
    ps = [p_ for p_ in f.params() if p_ != "self"]
    res.ob(f"{rule}:{f.qual}", 3)
    if len(ps) != 2:
        raise AnchorMissing("LiquidError._error_context no longer takes (text, index)")
    p_text, p_index = ps
    lines_vars = {}
    for st in walk_no_nested(f.node):
        if isinstance(st, ast.Assign) and len(st.targets) == 1 and isinstance(st.targets[0], ast.Name) and isinstance(st.value, ast.Call) and callee_name(st.value) == "splitlines" and is_name(call_recv(st.value), p_text):
            kw = {k.arg: k.value for k in st.value.keywords}
            keep = kw.get("keepends") or (st.value.args[0] if st.value.args else None)
            lines_vars[st.targets[0].id] = isinstance(keep, ast.Constant) and keep.value is True
    if not lines_vars:
        raise AnchorMissing("_error_context no longer splits its text into lines with splitlines()")
    for v, keeps in lines_vars.items():
        if not keeps:
            res.add(rule, f.qual, "keepends", f"{f.qual} adds up the lengths of `{p_text}.splitlines()` WITHOUT the line ends: the total falls short of len({p_text}) by one per newline, so for an error token near the end of a multi-line source no line is found and the formatter raises ValueError — in warn mode (where every suppressed error is formatted) the template raises instead of warning", f.file, f.line)
    loops = [n for n in walk_no_nested(f.node) if isinstance(n, ast.For) and any(isinstance(x, ast.Name) and x.id in lines_vars for x in ast.walk(n.iter))]
    # the scan itself, in the two forms it is written in:
    #   A  total += len(line); if index < total: break
    #   B  end = start + len(line); if index < end: break; start = end
    # checked strictly when recognised (the comparison must be strict: the first line whose end is
    # beyond the index); any other way of writing the scan is not decided here (only the
    # keepends clause above is).
    verdict = None
    for lp in loops:
        line_v = [x.id for x in ast.walk(lp.target) if isinstance(x, ast.Name)]

        def is_len_line(e) -> bool:
            return isinstance(e, ast.Call) and is_name(e.func, "len") and e.args and isinstance(e.args[0], ast.Name) and e.args[0].id in line_v

        tests = [n for n in ast.walk(lp) if isinstance(n, ast.If) and isinstance(n.test, ast.Compare) and len(n.test.ops) == 1 and any(is_name(x, p_index) for x in (n.test.left, n.test.comparators[0])) and any(isinstance(b, (ast.Break, ast.Return)) for b in n.body)]
        if not tests:
            continue
        t = tests[0].test
        other = t.comparators[0] if is_name(t.left, p_index) else t.left
        if not isinstance(other, ast.Name):
            continue
        tot = other.id
        strict = (isinstance(t.ops[0], ast.Lt) and is_name(t.left, p_index)) or (isinstance(t.ops[0], ast.Gt) and is_name(t.comparators[0], p_index))
        adds = [st for st in ast.walk(lp) if isinstance(st, ast.AugAssign) and isinstance(st.op, ast.Add) and is_name(st.target, tot) and is_len_line(st.value)]
        binds = [st for st in ast.walk(lp) if isinstance(st, ast.Assign) and len(st.targets) == 1 and is_name(st.targets[0], tot) and isinstance(st.value, ast.BinOp) and isinstance(st.value.op, ast.Add) and (is_len_line(st.value.right) or is_len_line(st.value.left))]
        if len(adds) == 1 and not binds:
            verdict = strict  # form A
        elif len(binds) == 1 and not adds:
            b0 = binds[0].value
            start = b0.left if is_len_line(b0.right) else b0.right
            carried = isinstance(start, ast.Name) and any(isinstance(st, ast.Assign) and len(st.targets) == 1 and is_name(st.targets[0], start.id) and is_name(st.value, tot) for st in ast.walk(lp))
            verdict = strict and carried  # form B
    if verdict is False:
        res.add(rule, f.qual, "scan", f"{f.qual} must find the line as the first one whose running total of len(line) exceeds the index (strict comparison, one addition of len(line) per line)", f.file, f.line)
    elif verdict is None:
        res.sample({"rule": rule, "function": f.qual, "note": "the line scan is written in a form this rule does not read; only the keepends clause was decided"})


def run(repo: Repo) -> Result:
    res = Result(PID)
    res.rules = ["C20-TOKEN", "C20-SPAN", "C20-ERR"]
    res.explanation = "agreement of value group / offset group / source in every Token construction of the three tokenizers; provenance of every Span; guard shape of error formatting"
    res.assumptions = ["the regex match object and its groups are the ground truth for positions"]
    token_cls = repo.cls("liquid.token.Token")
    fields = [a for a in token_cls.node.body if isinstance(a, ast.AnnAssign)]
    order = [a.target.id for a in fields]
    if order[:4] != ["kind", "value", "start_index", "source"]:
        raise AnchorMissing(f"Token fields are {order}")
    n_tokens = 0
    for fq in TOKENIZERS:
        f = repo.func(fq)
        mod = f.module
        # the matched text: argument of <rules>.finditer(S)
        matched = None
        for c in calls(f.node):
            if callee_name(c) == "finditer" and c.args and isinstance(c.args[0], ast.Name):
                matched = c.args[0].id
        if matched is None:
            raise AnchorMissing(f"{fq}: no finditer(<source>) loop found")
        mv = [n.target.id for n in walk_no_nested(f.node) if isinstance(n, ast.For) and isinstance(n.target, ast.Name) and isinstance(n.iter, ast.Call) and callee_name(n.iter) == "finditer"]
        if len(mv) != 1:
            raise AnchorMissing(f"{fq}: expected one `for <match> in <rules>.finditer(...)` loop")
        MATCH_VAR[0] = mv[0]
        # offsets are reported against the text the CALLER holds: the matched text must be a
        # parameter of the tokenizer and must not be rebound (normalised, stripped, decoded ...)
        res.ob(f"{fq}:matched-text")
        if matched not in f.params():
            res.add("C20-TOKEN", fq, f"matched-text:{'derived'}", f"{fq} matches `{matched}`, which is not the text it was given: every start_index is an offset into a different string than the caller's source", f.file, f.line)
        else:
            for n in walk_no_nested(f.node):
                tg = []
                if isinstance(n, ast.Assign):
                    tg = [x for t in n.targets for x in ast.walk(t)]
                elif isinstance(n, (ast.AugAssign, ast.AnnAssign)):
                    tg = [n.target]
                elif isinstance(n, ast.NamedExpr):
                    tg = [n.target]
                if any(is_name(x, matched) for x in tg):
                    res.add("C20-TOKEN", fq, "matched-text:rebound", f"{fq} rebinds `{matched}` (`{text(n)[:50]}`) before matching it: offsets (and Token.source) then refer to the modified text, so every reported index is shifted against the source the caller or loader holds", f.file, n.lineno)
        # variables bound from match.group(...)
        var_groups: dict[str, set] = {}
        var_starts: dict[str, set] = {}
        var_full: dict[str, set] = {}
        for st in walk_no_nested(f.node):
            if isinstance(st, ast.Assign) and len(st.targets) == 1 and isinstance(st.targets[0], ast.Name):
                g = _group_of_group_call(repo, mod, st.value)
                if g is not None:
                    var_groups.setdefault(st.targets[0].id, set()).add(g)
                b, k, sg = _start_expr(repo, mod, st.value)
                if k is not None and b is None:
                    var_starts.setdefault(st.targets[0].id, set()).add((k, sg))
                if k is not None and b is not None:
                    # `start_index = <parent>.start_index + match.start(G)` computed once per match
                    var_full.setdefault(st.targets[0].id, set()).add((b, k, sg))
        for c in calls(f.node, nested=True):
            if not (isinstance(c.func, ast.Name) and c.func.id == "Token"):
                continue
            n_tokens += 1
            b = {}
            for name, a in zip(order, c.args):
                b[name] = a
            for k in c.keywords:
                b[k.arg] = k.value
            construct = f"{fq}:Token({text(b.get('kind'))[:24]}, {text(b.get('value'))[:24]})"
            res.ob(construct)
            if not all(x in b for x in ("kind", "value", "start_index", "source")):
                res.add("C20-TOKEN", fq, f"incomplete:{text(c)[:40]}", f"{fq}: `{text(c)[:60]}` does not set kind/value/start_index/source", f.file, c.lineno)
                continue
            # value groups
            v = b["value"]
            vg = _group_of_group_call(repo, mod, v)
            if vg is not None:
                vgs = {vg}
            elif isinstance(v, ast.Name) and v.id in var_groups:
                near = _nearest_binding(f.node, c, v.id)
                g1 = _group_of_group_call(repo, mod, near) if near is not None else None
                vgs = {g1} if g1 is not None else set(var_groups[v.id])
            elif isinstance(v, ast.Call) and callee_name(v) == "join":
                vgs = {"<joined-text>"}  # comment text assembled from several matches
            elif isinstance(v, ast.Constant) and isinstance(v.value, str):
                # a literal: fine where every path to this token has tested a group of the match
                # for equality with exactly that text (sa/intsign.py: all paths of the iteration,
                # nesting counters in a sign domain)
                import re as _re

                from ..intsign import facts_reaching

                fr = facts_reaching(f.node, c)
                vgs = set()
                for ft, fo in fr or ():
                    m_ = _re.fullmatch(r"\w+\.group\((['\"])(\w+)\1\) == (['\"])(.*)\3", ft)
                    if fo and m_ and m_.group(4) == v.value:
                        vgs.add(m_.group(2))
            else:
                vgs = set()
            # start
            s = b["start_index"]
            base, kind, sg = _start_expr(repo, mod, s)
            if kind is None and isinstance(s, ast.Name) and s.id in var_full and len(var_full[s.id]) == 1 and s.id not in var_starts:
                base, kind, sg = next(iter(var_full[s.id]))
            if kind is None and isinstance(s, ast.Name) and s.id in var_starts:
                starts = var_starts[s.id]
                kind, sg = next(iter(starts)) if len(starts) == 1 else (None, None)
            if isinstance(s, ast.BinOp) and isinstance(s.op, ast.Add) and isinstance(s.right, ast.Name) and s.right.id in var_starts and len(var_starts[s.right.id]) == 1:
                base = text(s.left)
                kind, sg = next(iter(var_starts[s.right.id]))
            src = b["source"]
            # -- source / base agreement
            if is_name(src, matched):
                if base is not None:
                    res.add("C20-TOKEN", fq, f"base-with-own-source:{text(s)[:40]}", f"{fq}: `{text(c)[:70]}` adds `{base}` to an offset although `source` is the text being matched", f.file, c.lineno)
            elif isinstance(src, ast.Attribute) and src.attr == "source" and isinstance(src.value, ast.Name):
                parent = src.value.id
                if base != f"{parent}.start_index":
                    res.add("C20-TOKEN", fq, f"no-parent-offset:{text(s)[:40]}", f"{fq}: `{text(c)[:70]}` points into `{parent}.source` but its offset is `{text(s)}` — it must be `{parent}.start_index + match.start(...)`", f.file, c.lineno)
            else:
                res.add("C20-TOKEN", fq, f"source:{text(src)[:30]}", f"{fq}: token source `{text(src)}` is neither the matched text nor a parent token's source", f.file, c.lineno)
            # -- group agreement
            if kind is None:
                res.add("C20-TOKEN", fq, f"offset:{text(s)[:40]}", f"{fq}: `{text(c)[:70]}`: start_index `{text(s)}` is not derived from the match", f.file, c.lineno)
                continue
            if not vgs:
                res.add("C20-TOKEN", fq, f"value:{text(v)[:40]}", f"{fq}: `{text(c)[:70]}`: value `{text(v)}` is not a group of the match", f.file, c.lineno)
                continue
            for g in sorted(vgs, key=str):
                if g == "<joined-text>":
                    continue
                ok = g == sg or (sg == WHOLE and g in REVIEWED_INNER_GROUPS and kind == "start")
                if kind == "end":
                    ok = False
                # text-like tokens (final yield of the template lexer): offset of the whole match is
                # accepted for any group of it — text tokens are not reported items
                kind_txt = text(b["kind"])
                if not ok and fq == TOKENIZERS[0] and kind_txt == "kind" and sg == WHOLE:
                    ok = True
                if not ok:
                    res.add(
                        "C20-TOKEN",
                        fq,
                        f"group-mismatch:value={g}:offset={sg}",
                        f"{fq}: `{text(c)[:70]}` takes its value from group {g!r} but its offset from match.{kind}({'' if sg == WHOLE else repr(sg)}): the reported location does not point at the reported text",
                        f.file,
                        c.lineno,
                    )
            res.sample({"rule": "C20-TOKEN", "site": construct, "value_groups": sorted(map(str, vgs)), "offset": f"{base + ' + ' if base else ''}match.{kind}({'' if sg == WHOLE else sg})"})
    if n_tokens < 12:
        raise AnchorMissing(f"only {n_tokens} Token constructions found")

    # ---- C20-SPAN -------------------------------------------------------------
    n_span = 0
    for modname in ("liquid.static_analysis", "liquid.analyze_tags"):
        m = repo.module(modname)
        funcs = list(m.functions.values()) + [x for c in m.classes.values() for x in c.methods.values()]
        from ..normalize import NFunc, normalize

        for f0 in funcs:
            # a private span-building helper (`self._span(token)`) is judged where it is used:
            # helpers are inlined into their callers, and a function that is nothing but
            # `return Span(...)` is skipped itself
            body0 = [x for x in f0.node.body if not (isinstance(x, ast.Expr) and isinstance(x.value, ast.Constant))]
            if f0.name.startswith("_") and len(body0) == 1 and isinstance(body0[0], ast.Return) and isinstance(body0[0].value, ast.Call) and isinstance(body0[0].value.func, ast.Name) and body0[0].value.func.id == "Span":
                continue
            f = NFunc(f0, normalize(repo, f0, aliases=False, keep=("_visit", "_analyze_variables", "_extract_filters", "_segments", "_audit_tags", "_valid_inner_tag")))
            aliases = {}
            for st in ast.walk(f.node):
                if isinstance(st, ast.Assign) and len(st.targets) == 1 and isinstance(st.targets[0], ast.Name):
                    aliases[st.targets[0].id] = st.value
            pm = {}
            for n in ast.walk(f.node):
                for ch in ast.iter_child_nodes(n):
                    pm[id(ch)] = n
            for c in calls(f.node, nested=True):
                if not (isinstance(c.func, ast.Name) and c.func.id == "Span"):
                    continue
                n_span += 1
                construct = f"{f.qual}:{text(c)[:50]}"
                res.ob(construct)
                if len(c.args) != 2:
                    res.add("C20-SPAN", f.qual, f"args:{text(c)[:40]}", f"{f.qual}: `{text(c)}` must be Span(template_name, start_index)", f.file, c.lineno)
                    continue
                tn, idx = c.args
                if text(tn) not in ("template_name", "self.template_name"):
                    res.add("C20-SPAN", f.qual, f"template:{text(tn)[:30]}", f"{f.qual}: span names template `{text(tn)}`, not the template being visited", f.file, c.lineno)
                ch = attr_chain(idx)
                if not ch or ch[-1] != "start_index":
                    res.add("C20-SPAN", f.qual, f"index:{text(idx)[:30]}", f"{f.qual}: span index `{text(idx)}` is not a token's start_index", f.file, c.lineno)
                    continue
                owner = ch[0]
                # the report must be keyed on the same object: the key expression is the
                # sibling tuple element / the subscript of `<map>[key].append(Span)` / the other
                # keyword arguments of `Variable(segments=..., span=Span(...))`
                parent = pm.get(id(c))
                keys: list[ast.AST] = []
                if isinstance(parent, ast.keyword):
                    call = pm.get(id(parent))
                    keys = [k.value for k in call.keywords if k is not parent] + list(call.args)
                elif isinstance(parent, ast.Tuple):
                    keys = [e for e in parent.elts if e is not c]
                elif isinstance(parent, ast.Call) and callee_name(parent) in ("append", "add") and isinstance(call_recv(parent), ast.Subscript):
                    keys = [call_recv(parent).slice]
                else:
                    st = c
                    while id(st) in pm and not isinstance(st, ast.stmt):
                        st = pm[id(st)]
                    keys = [n for n in ast.walk(st) if isinstance(n, ast.Name) and not any(n is x for x in ast.walk(c))]
                others = set()
                for k in keys:
                    for nm in names_in(k):
                        others.add(nm)
                        if nm in aliases:
                            others |= names_in(aliases[nm])
                if owner not in others:
                    res.add("C20-SPAN", f.qual, f"owner:{owner}:{text(parent)[:40] if parent is not None else ''}", f"{f.qual}: the report keyed on `{', '.join(text(k)[:30] for k in keys)}` is located at `{text(idx)}` — a different item", f.file, c.lineno)
    if n_span < 10:
        raise AnchorMissing(f"only {n_span} Span constructions found")

    # ---- C20-ERR -----------------------------------------------------------------
    le = repo.cls("liquid.exceptions.LiquidError")
    for m in ("detailed_message", "context"):
        f = le.methods[m]
        res.ob(f.qual)
        # path conditions (sa/guards.py): every statement that reads token.source / start_index
        # runs only where `self.token` is set and `self.token.start_index >= 0`
        from ..guards import canon as _canon
        from ..guards import conditions as _conditions

        nonneg = _canon(ast.parse("self.token.start_index >= 0", mode="eval").body)
        has_tok = {_canon(ast.parse("self.token", mode="eval").body), _canon(ast.parse("self.token is not None", mode="eval").body)}
        ok = True
        n_use = 0
        for st, cs in _conditions(f.node):
            if isinstance(st, (ast.If, ast.For, ast.While, ast.With, ast.Try)):
                continue
            if not any(isinstance(n, ast.Attribute) and n.attr in ("source", "start_index") and text(n.value) == "self.token" for n in ast.walk(st)):
                continue
            n_use += 1
            cc = {_canon(c) for c in cs}
            if nonneg not in cc or not (cc & has_tok):
                ok = False
        if n_use == 0:
            ok = False
        if not ok:
            res.add("C20-ERR", f.qual, "guard", f"{f.qual} must return early when there is no token or start_index < 0 before indexing into the source", f.file, f.line)
        for c in calls(f.node):
            if callee_name(c) == "_error_context":
                if [text(a) for a in c.args] != ["self.token.source", "self.token.start_index"]:
                    res.add("C20-ERR", f.qual, f"args:{text(c)[:40]}", f"{f.qual} must compute the context from the token's own source and start_index", f.file, c.lineno)
    check_error_context(repo, res, "C20-ERR")
    # LiquidError subclasses raised in parse-time modules carry token=
    n_raise = 0
    from ..engines.hnd import Hier

    H = Hier(repo)
    for f in repo.all_functions():
        parse_time = f.name.startswith(("parse", "_parse", "validate", "eat_block", "tokenize", "_tokenize", "into_inner", "expect", "eat", "_expect"))
        if not parse_time:
            continue
        for n in ast.walk(f.node):
            if isinstance(n, ast.Raise) and isinstance(n.exc, ast.Call):
                nm = callee_name(n.exc)
                if H.is_liquid_error(nm) and nm not in ("TemplateNotFoundError",):
                    n_raise += 1
                    kws = {k.arg for k in n.exc.keywords}
                    if "token" not in kws and None not in kws:
                        res.ob(f"raise:{f.qual}:{nm}")
                        res.add("C20-ERR", f.qual, f"raise-without-token:{nm}", f"{f.qual} raises {nm}(...) without token=: LiquidError.__init__ requires it (TypeError instead of a Liquid error)", f.file, n.lineno)
    res.ob("liquid-raises", max(n_raise, 1))
    res.stats.update(token_constructions=n_tokens, span_constructions=n_span, liquid_raise_sites=n_raise)
    return res


def selftest(repo: Repo):
    from ..selftest import Variant, text_edit

    def v(name, rel, old, new, expect, count=1):
        return lambda: Variant(name, text_edit(repo, rel, old, new, count), expect)

    L = "liquid/lex.py"
    T = "liquid/builtin/expressions/_tokenize.py"
    Q = "liquid/builtin/tags/liquid_tag.py"
    S = "liquid/static_analysis.py"
    return [
        v("lexer-strips-bom-before-matching", "liquid/lex.py", "    for match in rules.finditer(source):", "    if source.startswith(\"\\ufeff\"):\n        source = source[1:]\n\n    for match in rules.finditer(source):", "C20-TOKEN"),
        v("lexer-matches-normalised-copy", "liquid/lex.py", "    for match in rules.finditer(source):", "    text_ = source.replace(\"\\r\\n\", \"\\n\")\n    for match in rules.finditer(text_):", "C20-TOKEN"),
        v("tag-offset-whole-match", L, '                start_index=match.start("name"),\n                source=source,\n            )\n\n            value = match.group("expr")', '                start_index=match.start(),\n                source=source,\n            )\n\n            value = match.group("expr")', "group-mismatch"),
        v("expr-offset-of-name", L, 'start_index=match.start("expr"),', 'start_index=match.start("name"),', "group-mismatch"),
        v("stmt-offset-end", L, 'start_index=match.start("stmt"),', 'start_index=match.end("stmt"),', "group-mismatch"),
        v("subtoken-drops-parent-offset", T, "        yield Token(\n            kind,\n            value,\n            start_index=parent_token.start_index + match.start(),", "        yield Token(\n            kind,\n            value,\n            start_index=match.start(),", "no-parent-offset"),
        v("liquid-tag-drops-offset", Q, 'start_index=token.start_index + match.start("name"),', 'start_index=match.start("name"),', "no-parent-offset"),
        v("liquid-tag-wrong-group", Q, 'start_index=token.start_index + match.start("expr"),', 'start_index=token.start_index + match.start("name"),', "group-mismatch"),
        v("lexer-adds-base", L, '                start_index=match.start("stmt"),', '                start_index=len(source) + match.start("stmt"),', "C20-TOKEN"),
        v("span-of-other-token", S, "            tags[node.token.value].append(Span(template_name, node.token.start_index))", "            tags[node.token.value].append(Span(template_name, template.nodes[0].token.start_index))", "C20-SPAN", count=2),
        v("span-wrong-template", S, "                    span=Span(template_name, ident.token.start_index),", "                    span=Span(template.name, ident.token.start_index),", "C20-SPAN", count=2),
        v("filter-span-of-expression", S, "            (f.name, Span(template_name, f.token.start_index))\n            for f in expression.filters\n        )\n\n    for expr in expression.children():", "            (f.name, Span(template_name, expression.token.start_index))\n            for f in expression.filters\n        )\n\n    for expr in expression.children():", "C20-SPAN"),
        v("error-message-no-guard", "liquid/exceptions.py", "        if not self.token or self.token.start_index < 0:\n            return super().__str__()", "        if not self.token:\n            return super().__str__()", "C20-ERR"),
        v("raise-without-token", "liquid/builtin/tags/cycle_tag.py", 'raise LiquidSyntaxError("expected at least one argument", token=token)', 'raise LiquidSyntaxError("expected at least one argument")', "raise-without-token"),
    ]
