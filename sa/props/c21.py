"""C21 — tag analysis is total and raises no false alarms.

  C21-TOTAL  the tag audit (``TagAnalysis.__init__`` / ``_all_tags`` / ``_audit_tags`` /
             ``_valid_inner_tag``) cannot raise on any token list: every ``list.pop()`` is
             dominated by a non-empty test of that list, every non-slice subscript is on a
             ``defaultdict`` (or a dict it just tested with ``in``), and it raises nothing
             itself.
  C21-STACK  inner tags are validated by membership in the very stack that block tags are pushed
             on and end tags pop (no derived set/counter that loses nested same-name blocks);
             leftovers and mismatched pops are reported as unclosed.
  C21-INNER  for every registered block tag, the inner tag names its parser accepts (tag-name
             constants in the end-sets it passes to ``parse_block`` and in its ``is_tag`` /
             ``value ==`` tests, minus its own end tag and EOF) plus ``break``/``continue`` when
             its node handles the loop interrupts — equals ``DEFAULT_INNER_TAG_MAP[name]``
             (writer/reader table agreement: otherwise a template that parses is reported as
             having unexpected/unknown tags, or a misplaced inner tag is never reported).
  C21-END    every registered block tag declares ``end == "end" + name`` (the audit pairs
             blocks by that convention and ``registered_end_blocks`` is built from ``end``) and
             its parser stops at exactly that tag.
  C21-LIVE   the audit judges a template against the tag register the environment has *now* (the
             same ``env.tags`` the parser consults on every parse): no function that reads a
             ``.tags`` register is memoised (``lru_cache`` / ``cache`` / ``cached_property`` —
             a snapshot keyed on the environment goes stale when a tag is added or removed),
             and ``_audit_tags`` (with its un-memoised helpers) does read ``env.tags``.
  C21-BLOCK  a tag is declared ``block`` iff its parser consumes a block (calls
             ``parse_block`` / scans to its end tag): the audit pushes exactly the tags that
             need an end tag.
"""

from __future__ import annotations

import ast

from ..astutil import call_recv, attr_chain, callee_name, calls, handler_types, is_name, is_self_attr, text
from ..core import Result
from ..flow import MustFlow, node_calls
from ..model import AnchorMissing, Repo, fold_str, walk_no_nested
from ..registry import Registry

PID = "C21"
MIN_OBLIGATIONS = 40
TA = "liquid.analyze_tags.TagAnalysis"


def _fold(repo, cls, module, e) -> set[str] | None:
    """Fold an expression to a set of tag-name strings (self.<attr>, constants, tuples, frozensets)."""
    if isinstance(e, ast.Attribute) and is_name(e.value, "self") and cls is not None:
        a = repo.find_attr(cls, e.attr)
        if a:
            return _fold(repo, a[0], a[0].module, a[1])
        return None
    if isinstance(e, (ast.Tuple, ast.List, ast.Set)):
        out = set()
        for x in e.elts:
            s = _fold(repo, cls, module, x)
            if s is None:
                return None
            out |= s
        return out
    if isinstance(e, ast.Call) and callee_name(e) in ("frozenset", "set", "tuple", "list"):
        if not e.args:
            return set()
        return _fold(repo, cls, module, e.args[0])
    if isinstance(e, ast.Name) and cls is not None and e.id in cls.attrs and module is cls.module:
        # class-body name (e.g. `end` inside ENDSNIPPETBLOCK = frozenset((end, TOKEN_EOF)))
        return _fold(repo, cls, module, cls.attrs[e.id])
    s = fold_str(repo, module, e, 0)
    if s is not None:
        return {s}
    if isinstance(e, (ast.Name, ast.Attribute)):
        r = repo.resolve_in(module, text(e))
        if isinstance(r, tuple) and r[0] == "const":
            return _fold(repo, None, r[1], r[2])
    return None


def parser_facts(repo: Repo, tag, eof: str):
    """(inner/end tag names mentioned by the tag's parser, consumes_block, unresolved exprs)"""
    cls = tag.cls
    names: set[str] = set()
    unresolved: list[str] = []
    consumes = False
    methods = [m for m in cls.methods.values() if m.name != "__init__"]
    for m in methods:
        for c in calls(m.node, nested=True):
            nm = callee_name(c)
            if nm in ("parse_block", "eat_block"):
                e = None
                if len(c.args) >= 2:
                    e = c.args[1]
                for k in c.keywords:
                    if k.arg == "end":
                        e = k.value
                if e is not None:
                    s = _fold(repo, cls, m.module, e)
                    if s is None:
                        unresolved.append(text(e))
                    else:
                        names |= s
                        if s - {eof}:
                            consumes = True  # reads nodes up to a named end/inner tag
            elif nm == "is_tag" and c.args:
                s = _fold(repo, cls, m.module, c.args[0])
                if s is None:
                    unresolved.append(text(c.args[0]))
                else:
                    names |= s
            elif nm == "expect" and c.args and text(c.args[0]) == "TOKEN_TAG":
                e = c.args[1] if len(c.args) > 1 else next((k.value for k in c.keywords if k.arg == "value"), None)
                if e is not None:
                    s = _fold(repo, cls, m.module, e)
                    if s is None:
                        unresolved.append(text(e))
                    else:
                        names |= s
        for n in ast.walk(m.node):
            if isinstance(n, ast.Compare) and len(n.ops) == 1 and isinstance(n.ops[0], (ast.Eq, ast.NotEq, ast.In, ast.NotIn)):
                l = n.left
                if isinstance(l, ast.Attribute) and l.attr == "value" and text(l.value).endswith("current"):
                    s = _fold(repo, cls, m.module, n.comparators[0])
                    if s is not None:
                        names |= s
                        if any(x.startswith("end") and x != eof for x in s):
                            consumes = True
            # scanning loops of comment/doc tags: `while True:` + next(stream)
    return names, consumes, unresolved


def run(repo: Repo) -> Result:
    res = Result(PID)
    res.rules = ["C21-TOTAL", "C21-STACK", "C21-INNER", "C21-END", "C21-BLOCK", "C21-LIVE"]
    res.explanation = "totality of the tag audit (guarded pops / subscripts) and agreement between each block tag's parser, its declared end tag and DEFAULT_INNER_TAG_MAP"
    res.assumptions = ["sources the lexer accepts (post-lexing token lists)", "default and extra registries"]
    reg = Registry(repo)
    eof = fold_str(repo, repo.module("liquid.token"), ast.Name("TOKEN_EOF", ast.Load()), 0)

    # ---- C21-TOTAL --------------------------------------------------------------
    ta = repo.cls(TA)
    for m in ta.methods.values():
        f = m
        res.ob(f"total:{f.qual}")
        dd_vars = set()
        for st in walk_no_nested(f.node):
            tgt, v = None, None
            if isinstance(st, ast.Assign):
                tgt, v = st.targets[0], st.value
            elif isinstance(st, ast.AnnAssign):
                tgt, v = st.target, st.value
            if tgt is not None and isinstance(v, ast.Call) and callee_name(v) == "defaultdict":
                dd_vars.add(text(tgt))
        # a parameter of a private helper annotated DefaultDict[...] to which every call site in the
        # class hands a defaultdict of its own
        if f.name.startswith("_") and f.cls is not None:
            for a_ in f.node.args.args + f.node.args.kwonlyargs:
                if a_.annotation is not None and text(a_.annotation).split("[")[0].split(".")[-1] in ("DefaultDict", "defaultdict"):
                    ok_sites = []
                    for g in f.cls.methods.values():
                        g_dd = {text(st.targets[0] if isinstance(st, ast.Assign) else st.target) for st in walk_no_nested(g.node) if isinstance(st, (ast.Assign, ast.AnnAssign)) and isinstance(st.value, ast.Call) and callee_name(st.value) == "defaultdict"}
                        # names unpacked from a helper that returns its own defaultdicts
                        for st in walk_no_nested(g.node):
                            if isinstance(st, ast.Assign) and isinstance(st.targets[0], ast.Tuple) and isinstance(st.value, ast.Call) and isinstance(st.value.func, ast.Attribute) and is_name(st.value.func.value, "self") and st.value.func.attr in f.cls.methods:
                                h_ = f.cls.methods[st.value.func.attr]
                                h_dd = {text(x.targets[0] if isinstance(x, ast.Assign) else x.target) for x in walk_no_nested(h_.node) if isinstance(x, (ast.Assign, ast.AnnAssign)) and isinstance(x.value, ast.Call) and callee_name(x.value) == "defaultdict"}
                                rets_ = [r.value for r in walk_no_nested(h_.node) if isinstance(r, ast.Return) and isinstance(r.value, ast.Tuple)]
                                if len(rets_) == 1 and len(rets_[0].elts) == len(st.targets[0].elts):
                                    for t_, e_ in zip(st.targets[0].elts, rets_[0].elts):
                                        if isinstance(t_, ast.Name) and text(e_) in h_dd:
                                            g_dd.add(t_.id)
                        for c_ in ast.walk(g.node):
                            if isinstance(c_, ast.Call) and callee_name(c_) == f.name:
                                from ..astutil import bind_args as _ba21

                                b_ = _ba21(c_, f.node) or {}
                                ok_sites.append(b_.get(a_.arg) is not None and text(b_[a_.arg]) in g_dd)
                    if ok_sites and all(ok_sites):
                        dd_vars.add(a_.arg)
        ann_nodes = set()
        for n in ast.walk(f.node):
            anns = []
            if isinstance(n, ast.AnnAssign):
                anns.append(n.annotation)
            elif isinstance(n, ast.arg) and n.annotation is not None:
                anns.append(n.annotation)
            elif isinstance(n, (ast.FunctionDef, ast.AsyncFunctionDef)) and n.returns is not None:
                anns.append(n.returns)
            for a in anns:
                for x in ast.walk(a):
                    ann_nodes.add(id(x))
        for n in walk_no_nested(f.node):
            if id(n) in ann_nodes:
                continue  # annotations are not evaluated
            if isinstance(n, ast.Raise):
                res.add("C21-TOTAL", f.qual, f"raise:{text(n)[:40]}", f"{f.qual} raises `{text(n)[:60]}`: tag analysis must return a result for every token list", f.file, n.lineno)
            if isinstance(n, ast.Subscript) and not isinstance(n.slice, ast.Slice) and isinstance(n.ctx, ast.Load):
                res.ob(f"subscript:{f.qual}:{text(n)[:30]}")
                if text(n.value) not in dd_vars and not text(n.value).startswith("typing") and text(n.value) not in ("DefaultDict", "list", "dict", "tuple", "Optional", "Iterable", "Mapping"):
                    res.add("C21-TOTAL", f.qual, f"subscript:{text(n)[:40]}", f"{f.qual}: `{text(n)[:50]}` can raise KeyError/IndexError (not a defaultdict and not guarded)", f.file, n.lineno)

        # pops guarded by a non-empty test
        def gen_cond(test, truth):
            out = set()
            t = test
            if isinstance(t, ast.UnaryOp) and isinstance(t.op, ast.Not) and isinstance(t.operand, ast.Name):
                if not truth:
                    out.add(("nonempty", t.operand.id))
            elif isinstance(t, ast.Name) and truth:
                out.add(("nonempty", t.id))
            return out

        def kill(st, facts):
            dead = set()
            for c in calls(st):
                if callee_name(c) in ("pop", "clear", "remove") and isinstance(call_recv(c), ast.Name):
                    dead |= {x for x in facts if x[1] == call_recv(c).id}
            return dead

        def visit(node, st, f=f):
            for c in node_calls(node):
                if callee_name(c) in ("pop", "popleft") and not c.args and isinstance(call_recv(c), ast.Name):
                    res.ob(f"pop:{f.qual}:{call_recv(c).id}")
                    if ("nonempty", call_recv(c).id) not in st:
                        res.add("C21-TOTAL", f.qual, f"pop-unguarded:{call_recv(c).id}", f"{f.qual}: `{text(c)}` raises IndexError when `{call_recv(c).id}` is empty (e.g. a stray end tag) — no dominating emptiness test", f.file, c.lineno)

        MustFlow(gen_cond=gen_cond, kill=kill, visit=visit).run(f.node)
    from ..normalize import nfunc as _nf21

    audit = _nf21(repo, repo.own_method(TA, "_audit_tags"), keep=("_valid_inner_tag",))  # the audit's private helpers inlined
    if not any(callee_name(c) == "pop" for c in calls(audit.node)):
        raise AnchorMissing("_audit_tags no longer pops its block stack; re-derive C21-TOTAL")

    # ---- C21-STACK: inner tags are validated against the stack of *open* blocks itself ----
    res.ob("stack", 5)
    pushes = [c for c in calls(audit.node) if callee_name(c) == "append" and c.args and isinstance(c.args[0], ast.Call) and callee_name(c.args[0]) == "_BlockStackItem" and isinstance(call_recv(c), ast.Name)]
    pops = [c for c in calls(audit.node) if callee_name(c) == "pop" and not c.args and isinstance(call_recv(c), ast.Name)]
    stack_names = {call_recv(c).id for c in pushes}
    if len(stack_names) != 1 or {call_recv(c).id for c in pops} != stack_names:
        res.add("C21-STACK", audit.qual, "push-pop", "_audit_tags must push every block tag on one stack and pop that same stack on every end tag", audit.file, audit.line)
    else:
        stack = next(iter(stack_names))
        # the three report tables, by position in the returned tuple: (unclosed, unexpected, unknown)
        rets_a = [r for r in walk_no_nested(audit.node) if isinstance(r, ast.Return) and isinstance(r.value, ast.Tuple) and len(r.value.elts) == 3]
        if len(rets_a) != 1:
            raise AnchorMissing("_audit_tags no longer returns one (unclosed, unexpected, unknown) tuple")
        report_vars = []
        for e in rets_a[0].value.elts:
            nm = e.args[0] if isinstance(e, ast.Call) and e.args else e
            report_vars.append(nm.id if isinstance(nm, ast.Name) else text(nm))
        unclosed_var = report_vars[0]
        vcalls = [c for c in calls(audit.node) if callee_name(c) == "_valid_inner_tag"]
        if len(vcalls) != 1 or len(vcalls[0].args) != 2 or not is_name(vcalls[0].args[1], stack):
            res.add("C21-STACK", audit.qual, f"inner-validated-against:{text(vcalls[0].args[1]) if vcalls and len(vcalls[0].args) == 2 else None}", f"an inner tag must be validated against the stack of open blocks itself (`{stack}`): any derived container (a set of names, a counter) forgets that an enclosing block of the same name is still open after a nested one closes", audit.file, audit.line)
        # every other container that mirrors the stack is suspicious: adds/discards next to push/pop
        # (only inside the token loop that pushes and pops: sets built beforehand from the tag
        #  registry — block tag names, end tag names — do not change while tokens are audited)
        token_loops = [lp for lp in ast.walk(audit.node) if isinstance(lp, (ast.For, ast.While)) and any(any(p is x for x in ast.walk(lp)) for p in pushes + pops)]
        in_loop = {id(x) for lp in token_loops for x in ast.walk(lp)}
        for c in calls(audit.node):
            if id(c) not in in_loop:
                continue
            if callee_name(c) in ("add", "discard", "remove") and isinstance(call_recv(c), ast.Name) and call_recv(c).id != stack and call_recv(c).id not in report_vars:
                res.add("C21-STACK", audit.qual, f"shadow-container:{call_recv(c).id}", f"_audit_tags mirrors the block stack in `{call_recv(c).id}` ({text(c)[:40]}): a set cannot count nested blocks of the same name", audit.file, c.lineno)
        # the names the unclosed map goes by: the returned one and any local it was handed over
        # from (`a, b, c = <helper's a, b, c>` after a helper is inlined)
        unclosed_names = {unclosed_var}
        for st_u in ast.walk(audit.node):
            if isinstance(st_u, ast.Assign) and len(st_u.targets) == 1:
                tg_u, vl_u = st_u.targets[0], st_u.value
                if isinstance(tg_u, ast.Name) and tg_u.id in unclosed_names and isinstance(vl_u, ast.Name):
                    unclosed_names.add(vl_u.id)
                elif isinstance(tg_u, ast.Tuple) and isinstance(vl_u, ast.Tuple) and len(tg_u.elts) == len(vl_u.elts):
                    for t_u, v_u in zip(tg_u.elts, vl_u.elts):
                        if isinstance(t_u, ast.Name) and t_u.id in unclosed_names and isinstance(v_u, ast.Name):
                            unclosed_names.add(v_u.id)

        def reports_unclosed(node, item: str) -> bool:
            """`<unclosed>[<item>.name].append(...)` somewhere inside node"""
            for c in calls(node):
                r = call_recv(c)
                if callee_name(c) in ("append", "extend") and isinstance(r, ast.Subscript) and isinstance(r.value, ast.Name) and r.value.id in unclosed_names and text(r.slice) == f"{item}.name":
                    return True
            return False

        after = [s for s in audit.node.body if isinstance(s, ast.For) and is_name(s.iter, stack) and isinstance(s.target, ast.Name)]
        if not after or not reports_unclosed(after[-1], after[-1].target.id):
            res.add("C21-STACK", audit.qual, "leftover-unclosed", "blocks left on the stack at the end must be reported as unclosed", audit.file, audit.line)
        # `<popped> = <stack>.pop()` followed by `if <popped> != <tag name>[3:]: <unclosed>[<popped>.name].append(...)`
        popped = {st.targets[0].id for st in ast.walk(audit.node) if isinstance(st, ast.Assign) and len(st.targets) == 1 and isinstance(st.targets[0], ast.Name) and isinstance(st.value, ast.Call) and callee_name(st.value) == "pop" and is_name(call_recv(st.value), stack)}
        mism = [
            n
            for n in ast.walk(audit.node)
            if isinstance(n, ast.If)
            and isinstance(n.test, ast.Compare)
            and len(n.test.ops) == 1
            and isinstance(n.test.ops[0], ast.NotEq)
            and any((isinstance(side, ast.Name) and side.id in popped) or (isinstance(side, ast.Attribute) and side.attr == "name" and isinstance(side.value, ast.Name) and side.value.id in popped) for side in (n.test.left, n.test.comparators[0]))
            and any(isinstance(side, ast.Subscript) and isinstance(side.slice, ast.Slice) and text(side.slice) == "3:" for side in (n.test.left, n.test.comparators[0]))
        ]
        if not mism or not any(reports_unclosed(m_, p_) for m_ in mism for p_ in popped):
            res.add("C21-STACK", audit.qual, "mismatch-unclosed", "an end tag that does not match the popped block must report that block as unclosed", audit.file, audit.line)
    vit = repo.own_method(TA, "_valid_inner_tag")
    rets = [s for s in walk_no_nested(vit.node) if isinstance(s, ast.Return)]
    params = [p for p in vit.params() if p != "self"]
    # `any(t in <open blocks> for t in <tag names>)` where <open blocks> is the stack parameter
    # itself (then its items must compare equal to their names) or the names of ALL its items
    # computed here, from the stack as it is now ({b.name for b in block_stack})
    relies_on_eq = False
    ok_m = False
    if len(rets) == 1 and len(params) == 2:
        v = rets[0].value
        loc_m = {st.targets[0].id: st.value for st in walk_no_nested(vit.node) if isinstance(st, ast.Assign) and len(st.targets) == 1 and isinstance(st.targets[0], ast.Name)}
        if isinstance(v, ast.Call) and is_name(v.func, "any") and len(v.args) == 1 and isinstance(v.args[0], (ast.GeneratorExp, ast.ListComp)) and len(v.args[0].generators) == 1:
            g = v.args[0].generators[0]
            e = v.args[0].elt
            if is_name(g.iter, params[0]) and isinstance(g.target, ast.Name) and not g.ifs and isinstance(e, ast.Compare) and len(e.ops) == 1 and isinstance(e.ops[0], ast.In) and is_name(e.left, g.target.id):
                container = e.comparators[0]
                if isinstance(container, ast.Name) and container.id in loc_m:
                    container = loc_m[container.id]
                if is_name(container, params[1]):
                    ok_m, relies_on_eq = True, True
                elif isinstance(container, (ast.SetComp, ast.ListComp, ast.GeneratorExp)) and len(container.generators) == 1 and is_name(container.generators[0].iter, params[1]) and not container.generators[0].ifs and isinstance(container.generators[0].target, ast.Name) and text(container.elt) == f"{container.generators[0].target.id}.name":
                    ok_m = True
    if not ok_m:
        res.add("C21-STACK", vit.qual, "membership", "_valid_inner_tag must be `any(tag_name in block_stack for tag_name in tag_names)` (or the same test against the names of all blocks on the stack)", vit.file, vit.line)
    # a mismatch test on the popped object itself relies on name equality too
    if "mism" in dir() and any(any(isinstance(side, ast.Name) and side.id in popped for side in (m_.test.left, m_.test.comparators[0])) for m_ in mism):
        relies_on_eq = True
    if relies_on_eq:
        bsi_cls = repo.cls("liquid.analyze_tags._BlockStackItem")
        bsi = bsi_cls.methods.get("__eq__")
        if bsi is None or "== self.name" not in text(bsi.node):
            res.add("C21-STACK", bsi_cls.qual, "eq-by-name", "_BlockStackItem must compare equal to its tag name (the membership / mismatch test relies on it)", bsi_cls.file, bsi_cls.node.lineno)

    # ---- inner tag map -----------------------------------------------------------
    mp_expr = repo.const("liquid.analyze_tags.DEFAULT_INNER_TAG_MAP")
    if not isinstance(mp_expr, ast.Dict):
        raise AnchorMissing("DEFAULT_INNER_TAG_MAP is not a dict literal")
    inner_map: dict[str, set[str]] = {}
    amod = repo.module("liquid.analyze_tags")
    for k, v in zip(mp_expr.keys, mp_expr.values):
        ks = fold_str(repo, amod, k, 0)
        vs = _fold(repo, None, amod, v)
        if ks is None or vs is None:
            raise AnchorMissing("DEFAULT_INNER_TAG_MAP: cannot fold an entry")
        inner_map[ks] = vs

    # which node classes handle the loop interrupts
    def handles_interrupts(node_cls) -> bool:
        if node_cls is None:
            return False
        f = repo.find_method(node_cls, "render_to_output")
        if f is None:
            return False
        caught = set()
        for n in ast.walk(f.node):
            if isinstance(n, ast.ExceptHandler):
                caught |= set(handler_types(n))
        return {"BreakLoop", "ContinueLoop"} <= caught

    n_block = 0
    for t in reg.tags.values():
        names, consumes, unresolved = parser_facts(repo, t, eof)
        end_decl = "end" + t.name
        if end_decl in names and end_decl != eof:
            consumes = True  # scans to its own end tag (comment / doc)
        res.ob(f"block-decl:{t.cls.qual}")
        if unresolved:
            res.add("C21-INNER", t.cls.qual, f"unresolved:{unresolved[0][:30]}", f"{t.cls.qual}: cannot resolve end-set expression(s) {unresolved}", t.cls.file, t.cls.node.lineno)
        # comment / doc tags scan to their end tag in a loop instead of parse_block
        if t.block != consumes:
            # block tags that scan manually (comment, doc) mention their end tag in a comparison
            res.add("C21-BLOCK", t.cls.qual, f"block={t.block}:consumes={consumes}", f"{t.cls.qual} declares block={t.block} but its parser {'does' if consumes else 'does not'} consume a block: the audit will {'miss' if consumes else 'wrongly expect'} its end tag", t.cls.file, t.cls.node.lineno)
        if not t.block:
            continue
        n_block += 1
        res.ob(f"end:{t.cls.qual}")
        if t.end != "end" + t.name:
            res.add("C21-END", t.cls.qual, f"end={t.end!r}", f"{t.cls.qual}: block tag '{t.name}' must declare end = 'end{t.name}' (found {t.end!r}); analyze_tags reports its end tag as unknown and lax-mode recovery cannot find the end of the block", t.cls.file, t.cls.node.lineno)
        elif t.end not in names:
            res.add("C21-END", t.cls.qual, f"parser-ignores-end:{t.end}", f"{t.cls.qual}: the parser never looks for its declared end tag {t.end!r} (it mentions {sorted(names)})", t.cls.file, t.cls.node.lineno)
        inner = {n for n in names if n not in (t.end, eof, "", t.name) and not n.startswith("end")}
        other_ends = {n for n in names if n.startswith("end") and n not in (t.end, eof)}
        if other_ends:
            res.add("C21-END", t.cls.qual, f"foreign-end:{sorted(other_ends)}", f"{t.cls.qual}: parser stops at {sorted(other_ends)}, not only at its own end tag", t.cls.file, t.cls.node.lineno)
        want = set(inner)
        if handles_interrupts(t.node_class):
            want |= {"break", "continue"}
        have = inner_map.get(t.name, set())
        res.ob(f"inner:{t.name}")
        res.sample({"rule": "C21-INNER", "tag": t.name, "parser_accepts": sorted(want), "inner_tag_map": sorted(have)})
        if want != have:
            missing, extra = sorted(want - have), sorted(have - want)
            res.add(
                "C21-INNER",
                f"liquid.analyze_tags.DEFAULT_INNER_TAG_MAP[{t.name}]",
                f"missing={missing}:extra={extra}",
                f"DEFAULT_INNER_TAG_MAP[{t.name!r}] = {sorted(have)} but the {t.name} parser accepts {sorted(want)}: "
                + (f"{missing} would be reported as unexpected/unknown in valid templates; " if missing else "")
                + (f"{extra} would never be reported as misplaced" if extra else ""),
                "liquid/analyze_tags.py",
                mp_expr.lineno,
            )
    for k in inner_map:
        res.ob(f"map-key:{k}")
        if k not in reg.tags or not reg.tags[k].block:
            res.add("C21-INNER", f"liquid.analyze_tags.DEFAULT_INNER_TAG_MAP[{k}]", "not-a-block-tag", f"DEFAULT_INNER_TAG_MAP has an entry for {k!r}, which is not a registered block tag", "liquid/analyze_tags.py", mp_expr.lineno)
    if n_block < 12:
        raise AnchorMissing(f"only {n_block} block tags found")
    # ---- C21-LIVE --------------------------------------------------------------------------
    MEMO = {"lru_cache", "cache", "cached_property"}

    def memoised(f) -> bool:
        for d in f.node.decorator_list:
            for n in ast.walk(d):
                if isinstance(n, ast.Name) and n.id in MEMO or isinstance(n, ast.Attribute) and n.attr in MEMO:
                    return True
        return False

    def reads_tags(node) -> bool:
        return any(isinstance(n, ast.Attribute) and n.attr == "tags" and isinstance(n.ctx, ast.Load) for n in ast.walk(node))

    n_memo = 0
    for f in repo.all_functions():
        if memoised(f):
            n_memo += 1
            res.ob(f"live:memo:{f.qual}")
            if reads_tags(f.node):
                res.add("C21-LIVE", f.qual, "memoised-register", f"{f.qual} is memoised and reads a `.tags` register: the cached summary is a snapshot — after env.add_tag(...) / del env.tags[...] the tag audit judges templates against the old register (valid tags reported as unknown, removed tags not reported) while the parser reads env.tags live", f.file, f.line)
    # module-level `name = lru_cache(...)(fn)` wrappers
    for m in repo.modules.values():
        for nm, v in m.assigns.items():
            if isinstance(v, ast.Call) and any(isinstance(x, (ast.Name, ast.Attribute)) and (getattr(x, "id", None) in MEMO or getattr(x, "attr", None) in MEMO) for x in ast.walk(v.func)):
                for a in v.args:
                    r = repo.resolve_in(m, text(a)) if isinstance(a, (ast.Name, ast.Attribute)) else None
                    if r is not None and hasattr(r, "node") and reads_tags(r.node):
                        res.add("C21-LIVE", f"{m.name}.{nm}", "memoised-register", f"{m.name}.{nm} memoises {text(a)}, which reads a `.tags` register", m.relpath, v.lineno)
    au = _nf21(repo, repo.own_method(TA, "_audit_tags"), keep=("_valid_inner_tag",))
    res.ob(f"live:{au.qual}")
    from ..callgraph import CallGraph as _CG

    cg = _CG(repo)
    live = reads_tags(au.node) or any(reads_tags(g.node) and not memoised(g) for g in cg.callees(au))
    if not live:
        res.add("C21-LIVE", au.qual, "no-register-read", "_audit_tags (and its un-memoised helpers) no longer reads env.tags: the audit cannot reflect the environment's current tag register", au.file, au.line)
    if n_memo < 3:
        raise AnchorMissing(f"only {n_memo} memoised functions found (get_lexer, get_parser, get_implicit_environment expected)")
    res.stats.update(block_tags=n_block, inner_tag_map={k: sorted(v) for k, v in inner_map.items()})
    return res


def selftest(repo: Repo):
    from ..selftest import Variant, text_edit

    def v(name, rel, old, new, expect, count=1):
        return lambda: Variant(name, text_edit(repo, rel, old, new, count), expect)

    A = "liquid/analyze_tags.py"
    return [
        v("unguarded-pop", A, "                if not block_stack:\n                    # An \"end\" tag without any open block.\n                    unexpected_tags[tag_name].append(\n                        Span(self.template_name, token.start_index)\n                    )\n                    continue\n", "", "pop-unguarded"),
        lambda: Variant("tag-register-summary-memoised-per-environment", {A: next(m for m in repo.modules.values() if m.relpath == A).source.replace("InnerTagMap = Mapping[str, Iterable[str]]", "from functools import lru_cache\n\n\n@lru_cache(maxsize=128)\ndef _inline_tag_names(env):\n    return frozenset(tag.name for tag in env.tags.values() if not tag.block)\n\n\nInnerTagMap = Mapping[str, Iterable[str]]").replace("        inline_tags = {tag.name for tag in env.tags.values() if not tag.block}", "        inline_tags = _inline_tag_names(env)")}, "C21-LIVE"),
        lambda: Variant("tag-register-summary-helper-not-memoised-is-silent", {A: next(m for m in repo.modules.values() if m.relpath == A).source.replace("InnerTagMap = Mapping[str, Iterable[str]]", "def _inline_tag_names(env):\n    return frozenset(tag.name for tag in env.tags.values() if not tag.block)\n\n\nInnerTagMap = Mapping[str, Iterable[str]]").replace("        inline_tags = {tag.name for tag in env.tags.values() if not tag.block}", "        inline_tags = _inline_tag_names(env)")}, "C21-", silent=True),
        v("map-drops-for-else", A, '"for": ["else", "break", "continue"],', '"for": ["break", "continue"],', "C21-INNER"),
        v("map-drops-case-else", A, '"case": ["when", "else"],', '"case": ["when"],', "C21-INNER"),
        v("map-drops-plural", A, '    "translate": ["plural"],\n', "", "C21-INNER"),
        v("map-extra-inner", A, '"if": ["else", "elsif"],', '"if": ["else", "elsif", "when"],', "C21-INNER"),
        v("parser-accepts-new-inner", "liquid/builtin/tags/for_tag.py", "ENDFORBLOCK = frozenset((TAG_ENDFOR, TAG_ELSE))", 'ENDFORBLOCK = frozenset((TAG_ENDFOR, TAG_ELSE, "empty"))', "C21-INNER"),
        v("macro-without-end", "liquid/extra/tags/macro_tag.py", '    end = "endmacro"\n', "", "C21-END"),
        v("with-wrong-end", "liquid/extra/tags/_with.py", 'TAG_ENDWITH = sys.intern("endwith")', 'TAG_ENDWITH = sys.intern("end_with")', "C21-END"),
        v("inline-declared-block", "liquid/builtin/tags/echo_tag.py", "    name = TAG_ECHO\n    block = False\n", "    name = TAG_ECHO\n", "C21-BLOCK"),
        v("audit-raises", A, "        # Catch any unclosed tags.\n", "        if len(block_stack) > 100:\n            raise ValueError('too deep')\n        # Catch any unclosed tags.\n", "C21-TOTAL"),
        v("audit-plain-dict", A, "        unknown_tags: TagMap = defaultdict(list)", "        unknown_tags: TagMap = {}", "C21-TOTAL"),
        v("open-blocks-set", A, "                elif not self._valid_inner_tag(\n                    self._inner_tags.get(tag_name, []), block_stack\n                ):", "                elif not self._valid_inner_tag(\n                    self._inner_tags.get(tag_name, []), {b.name for b in block_stack[-1:]}\n                ):", "C21-STACK"),
        v("tablerow-no-interrupts-map", A, '    "tablerow": ["break", "continue"],\n', "", "C21-INNER"),
    ]
