"""C10 — literal text, raw blocks, comments and whitespace control (clauses).

  C10-TRAIL  for every markup alternative of the template lexer (raw, doc, comment, output
             statement, tag — both rule sets), the branch of ``_tokenize_template`` that
             handles it sets the left-strip flag for the *following* text from the named
             ``-?`` group that sits immediately before that alternative's final closing
             delimiter (for raw/doc: the hyphen of the *end* tag), unconditionally; the
             ``endcomment`` branch inside a comment does the same with the tag rule's group.
  C10-LEAD   the text rule's look-ahead contains the ``-?`` group after every opening
             delimiter, and the text branch right-strips iff that group matched and
             left-strips iff the flag is set — these are the only strip operations in the
             lexer, and they take no argument (all whitespace).
  C10-RAW    the raw alternative's body group is emitted unchanged as a content token.
  C10-SILENT ``CommentNode`` / ``DocNode`` / ``InlineCommentNode`` rendering writes nothing and
             returns 0.
  C10-TEXT   ``ContentNode`` writes exactly ``self.text`` and ``Literal.parse`` takes it from the
             token value unchanged.
  C10-CURSOR the parser advances once after a tag's ``parse`` returns, so ``parse`` of every tag
             without a block must return with ``stream.current`` on a token of the tag (the tag
             token or its verified expression token): four-state abstract run of ``parse`` over all
             paths (sa/cursor.py).  Otherwise the token after the tag — text, an output statement,
             another tag — is skipped and never output.
Not decided: alternation-order semantics of the regex for pathological overlaps.
"""

from __future__ import annotations

import ast

from ..astutil import call_recv, attr_chain, callee_name, calls, is_name, text
from ..core import Result
from ..lexmodel import LexModel
from ..model import AnchorMissing, Repo, fold_str, walk_no_nested

PID = "C10"
MIN_OBLIGATIONS = 18


def _group_of(expr) -> str | None:
    """bool(match.group("G")) / match.group("G")  ->  G"""
    e = expr
    if isinstance(e, ast.Call) and is_name(e.func, "bool") and len(e.args) == 1:
        e = e.args[0]
    if isinstance(e, ast.Call) and callee_name(e) == "group" and is_name(call_recv(e), "match") and len(e.args) == 1 and isinstance(e.args[0], ast.Constant):
        return e.args[0].value
    return None


def run(repo: Repo) -> Result:
    res = Result(PID)
    res.rules = ["C10-BLANK", "C10-TRAIL", "C10-LEAD", "C10-RAW", "C10-SILENT", "C10-TEXT", "C10-CURSOR"]
    res.explanation = "agreement between the lexer's regex alternatives (parsed, not matched) and the branches of _tokenize_template; write-nothing / write-verbatim rules for comment and content nodes"
    res.assumptions = ["regex alternation-order semantics for overlapping alternatives are not decided"]
    lm = LexModel(repo)
    from ..normalize import NFunc as _NFn
    from ..normalize import lexer_canonical as _lexer_canonical

    tok0 = repo.func("liquid.lex._tokenize_template")
    # locals named after their definitions: match / kind (= match.lastgroup) / value / name
    tok = _NFn(tok0, _lexer_canonical(tok0.node))
    # the comment nesting counter is the local that is both incremented and decremented by one
    inc_ = {n_.target.id for n_ in ast.walk(tok.node) if isinstance(n_, ast.AugAssign) and isinstance(n_.target, ast.Name) and isinstance(n_.op, ast.Add) and text(n_.value) == "1"}
    dec_ = {n_.target.id for n_ in ast.walk(tok.node) if isinstance(n_, ast.AugAssign) and isinstance(n_.target, ast.Name) and isinstance(n_.op, ast.Sub) and text(n_.value) == "1"}
    if len(inc_ & dec_) == 1 and "comment_depth" not in (inc_ & dec_) and not any(isinstance(x_, ast.Name) and x_.id == "comment_depth" for x_ in ast.walk(tok.node)):
        cd_ = next(iter(inc_ & dec_))
        for x_ in ast.walk(tok.node):
            if isinstance(x_, ast.Name) and x_.id == cd_:
                x_.id = "comment_depth"
    # the left-strip flag is the local tested by `if <flag>: value = value.lstrip()`
    for n_ in ast.walk(tok.node):
        if isinstance(n_, ast.If) and isinstance(n_.test, ast.Name) and any(isinstance(c_, ast.Call) and callee_name(c_) == "lstrip" and not c_.args for c_ in ast.walk(n_)):
            flag_ = n_.test.id
            if flag_ != "lstrip" and not any(isinstance(x_, ast.Name) and x_.id == "lstrip" for x_ in ast.walk(tok.node)):
                for x_ in ast.walk(tok.node):
                    if isinstance(x_, ast.Name) and x_.id == flag_:
                        x_.id = "lstrip"
            break
    mod = tok0.module

    # collect kind-branches: (kind constant, body, inside_comment_depth)
    branches: list[tuple[str, list[ast.stmt], bool]] = []

    def collect(body, in_comment):
        for st in body:
            if isinstance(st, ast.If):
                t = st.test
                if isinstance(t, ast.Compare) and is_name(t.left, "kind") and len(t.ops) == 1 and isinstance(t.ops[0], ast.Eq):
                    k = fold_str(repo, mod, t.comparators[0], 0)
                    if k is not None:
                        branches.append((k, st.body, in_comment))
                    collect(st.orelse, in_comment)
                    if in_comment:
                        collect(st.body, in_comment)
                elif is_name(t, "comment_depth"):
                    collect(st.body, True)
                    collect(st.orelse, in_comment)
                else:
                    collect(st.body, in_comment)
                    collect(st.orelse, in_comment)
            elif isinstance(st, (ast.For, ast.While)):
                collect(st.body, in_comment)

    collect(tok.node.body, False)
    if len(branches) < 6:
        raise AnchorMissing(f"_tokenize_template: only {len(branches)} `kind ==` branches found")

    def lstrip_assigns(body):
        out = []
        for st in body:
            for n in [st] + list(walk_no_nested(st)):
                if isinstance(n, ast.Assign) and any(is_name(t, "lstrip") for t in n.targets):
                    out.append(n)
        return out

    content_kind = fold_str(repo, mod, ast.Name("TOKEN_CONTENT", ast.Load()), 0)
    seen_alts = set()
    for rs in lm.rulesets:
        for alt in rs.alts:
            if alt.kind == content_kind:
                continue
            key = (alt.kind, alt.trailing_hyphen_group)
            if key in seen_alts:
                continue
            seen_alts.add(key)
            res.ob(f"lexer-alt:{alt.kind}")
            if alt.trailing_hyphen_group is None:
                res.add("C10-TRAIL", "liquid.lex.compile_liquid_rules", f"{alt.kind}:no-trailing-hyphen-group", f"lexer rule {alt.kind} has no named `-?` group immediately before its closing delimiter: a trailing hyphen cannot be honoured", lm.fn.file, lm.fn.line)
                continue
            top = [b for b in branches if b[0] == alt.kind and not b[2]]
            if not top:
                res.add("C10-TRAIL", tok.qual, f"{alt.kind}:no-branch", f"_tokenize_template has no branch for lexer rule {alt.kind}", tok.file, tok.line)
                continue
            for k, body, _ in top:
                asg = lstrip_assigns(body)
                # the flag must be (re)assigned on *every* path through the branch — also on
                # early `continue`s — or a stale flag from earlier markup applies to the text
                # that follows (must-flow over the branch body)
                from ..flow import MustFlow

                flow = MustFlow(gen=lambda st: {"set"} if isinstance(st, ast.Assign) and any(is_name(t, "lstrip") for t in st.targets) else set())
                flow._loops = [{"breaks": [], "continues": []}]
                flow._try_acc = []
                flow.exits = []
                out = flow.block(body, frozenset())
                ends = list(flow._loops[0]["continues"]) + list(flow._loops[0]["breaks"]) + ([out] if out is not None else []) + [st for kk, _n, st in flow.exits if kk == "return"]
                if not ends or any("set" not in st for st in ends):
                    res.add("C10-TRAIL", tok.qual, f"{alt.kind}:lstrip-not-set", f"the {alt.kind} branch has a path that does not set the left-strip flag, so a stale flag from earlier markup applies to the text that follows (or this markup's own hyphen is ignored)", tok.file, body[0].lineno)
                for a in asg:
                    g = _group_of(a.value)
                    if g != alt.trailing_hyphen_group:
                        res.add(
                            "C10-TRAIL",
                            tok.qual,
                            f"{alt.kind}:lstrip<-{g}",
                            f"the {alt.kind} branch takes the left-strip flag from `{text(a.value)}`; the hyphen before the closing delimiter of this rule is group '{alt.trailing_hyphen_group}'",
                            tok.file,
                            a.lineno,
                        )
            res.sample({"rule": "C10-TRAIL", "alternative": alt.kind, "trailing_hyphen_group": alt.trailing_hyphen_group, "ruleset": rs.condition})
    # closing a block comment: inside the comment-mode block (`if comment_depth:`) the TAG token
    # that closes the comment is yielded, and on the way from that yield to the end of the
    # iteration the left-strip flag is taken from the tag rule's trailing hyphen group — found by
    # the yield, wherever the surrounding tests put it
    res.ob("endcomment-branch")
    tag_alt = next(a for a in lm.rulesets[0].alts if a.kind == "TAG")
    comment_blocks = [n for n in ast.walk(tok.node) if isinstance(n, ast.If) and is_name(n.test, "comment_depth")]
    ok = False
    n_close = 0
    for cb in comment_blocks:
        for holder in ast.walk(cb):
            for fld in ("body", "orelse"):
                blk = getattr(holder, fld, None)
                if not (isinstance(blk, list) and blk and isinstance(blk[0], ast.stmt)):
                    continue
                for i_, st in enumerate(blk):
                    if isinstance(st, ast.Expr) and isinstance(st.value, ast.Yield) and isinstance(st.value.value, ast.Call) and callee_name(st.value.value) == "Token" and any((k.arg == "kind" and text(k.value) == "TOKEN_TAG") for k in st.value.value.keywords):
                        n_close += 1
                        asg = lstrip_assigns(blk[i_ + 1 :])
                        if asg and all(_group_of(a.value) == tag_alt.trailing_hyphen_group for a in asg):
                            ok = True
                        for a in asg:
                            if _group_of(a.value) != tag_alt.trailing_hyphen_group:
                                res.add("C10-TRAIL", tok.qual, f"endcomment:lstrip<-{_group_of(a.value)}", "the endcomment branch must take the left-strip flag from the tag rule's trailing hyphen group", tok.file, a.lineno)
    if not ok:
        res.add("C10-TRAIL", tok.qual, "endcomment:lstrip-not-set", "closing a comment block does not set the left-strip flag from the endcomment tag's hyphen", tok.file, tok.line)
    # ---- C10-LEAD ---------------------------------------------------------------
    for rs in lm.rulesets:
        c_alt = next((a for a in rs.alts if a.kind == content_kind), None)
        res.ob(f"content-alt:{rs.condition}")
        if c_alt is None or c_alt.lookahead_hyphen_group is None:
            res.add("C10-LEAD", "liquid.lex.compile_liquid_rules", f"content-lookahead:{rs.condition}", "the text rule has no look-ahead `-?` group after the opening delimiters: a leading hyphen cannot be honoured", lm.fn.file, lm.fn.line)
            continue
        # every opening placeholder of the markup alternatives occurs in the look-ahead
        openers = {a.opening_placeholder for a in rs.alts if a.opening_placeholder}
        la = c_alt.pattern[c_alt.pattern.index("(?=") :]
        for o in openers:
            res.ob(f"lookahead-opener:{lm.param_of(o)}:{rs.condition}")
            if o not in la:
                res.add("C10-LEAD", "liquid.lex.compile_liquid_rules", f"lookahead-missing:{lm.param_of(o)}:{rs.condition}", f"the text rule's look-ahead does not stop at {lm.param_of(o)}: text before it is not right-stripped and swallows the markup", lm.fn.file, lm.fn.line)
        # ... and in every alternative of the look-ahead the opening delimiter is immediately
        # followed by the `-?` group the text branch reads (regex syntax tree, linearised): a
        # group that binds to only some of the delimiters leaves the others without left
        # whitespace control.
        seqs = lm.lookahead_sequences(c_alt)
        for o in openers:
            res.ob(f"lookahead-hyphen:{lm.param_of(o)}:{rs.condition}")
            mine = [sq for sq in seqs if sq and sq[0] == ("lit", o)]
            bad = [sq for sq in mine if not (len(sq) >= 2 and sq[1] == ("hyphen?", c_alt.lookahead_hyphen_group))]
            if mine and bad:
                res.add(
                    "C10-LEAD",
                    "liquid.lex.compile_liquid_rules",
                    f"lookahead-hyphen-unbound:{lm.param_of(o)}:{rs.condition}",
                    f"in the text rule's look-ahead ({rs.condition}) the opening delimiter {lm.param_of(o)} is not followed by the `-?` group '{c_alt.lookahead_hyphen_group}': a hyphen on that delimiter does not strip the whitespace before it",
                    lm.fn.file,
                    lm.fn.line,
                )
        # the end alternative must be the end of the *string*: `$` also matches before a final
        # newline, which splits the last text into two tokens — the second ("\n") then meets the
        # stale left-strip flag of the previous markup and is lost
        res.ob(f"lookahead-end:{rs.condition}")
        ends = [sq for sq in seqs if sq and sq[0][0] == "end"]
        if not ends:
            res.add("C10-LEAD", "liquid.lex.compile_liquid_rules", f"lookahead-no-end:{rs.condition}", f"the text rule's look-ahead ({rs.condition}) has no end-of-input alternative: trailing text is never emitted", lm.fn.file, lm.fn.line)
        for sq in ends:
            if sq[0][1] != "string":
                res.add(
                    "C10-LEAD",
                    "liquid.lex.compile_liquid_rules",
                    f"lookahead-end-anchor:{rs.condition}",
                    f"the text rule's look-ahead ({rs.condition}) ends text at `$`, which also matches before a final newline: 'x -}}}}hello\\n' is lexed as 'hello' + '\\n' and the newline is stripped by the stale left-strip flag (use \\Z)",
                    lm.fn.file,
                    lm.fn.line,
                )
        stray = [sq for sq in seqs if sq and sq[0][0] == "lit" and sq[0][1] not in openers]
        for sq in stray:
            res.add("C10-LEAD", "liquid.lex.compile_liquid_rules", f"lookahead-stray:{rs.condition}", f"the text rule's look-ahead ({rs.condition}) has an alternative that starts with a literal that is not an opening delimiter", lm.fn.file, lm.fn.line)
    cbranch = [b for b in branches if b[0] == content_kind and not b[2]]
    if len(cbranch) != 1:
        raise AnchorMissing("_tokenize_template: content branch not found")
    cbody = cbranch[0][1]
    look_group = next(a for a in lm.rulesets[0].alts if a.kind == content_kind).lookahead_hyphen_group
    strips = [c for c in calls(tok.node) if callee_name(c) in ("lstrip", "rstrip", "strip")]
    res.ob("strip-ops", 2)
    want = {"lstrip": False, "rstrip": False}
    for st in cbody:
        if isinstance(st, ast.If) and len(st.body) == 1 and isinstance(st.body[0], ast.Assign) and not st.orelse:
            a = st.body[0]
            v = a.value
            if isinstance(v, ast.Call) and is_name(call_recv(v) if isinstance(v.func, ast.Attribute) else None, "value") and is_name(a.targets[0], "value") and not v.args and not v.keywords:
                if callee_name(v) == "lstrip" and is_name(st.test, "lstrip"):
                    want["lstrip"] = True
                if callee_name(v) == "rstrip" and _group_of(st.test) == look_group:
                    want["rstrip"] = True
    if not want["lstrip"]:
        res.add("C10-LEAD", tok.qual, "content-lstrip", "the text branch must do `if lstrip: value = value.lstrip()` (all whitespace, only when the previous closing delimiter had a hyphen)", tok.file, cbody[0].lineno)
    if not want["rstrip"]:
        res.add("C10-LEAD", tok.qual, "content-rstrip", f"the text branch must do `if match.group('{look_group}'): value = value.rstrip()`", tok.file, cbody[0].lineno)
    if len(strips) != 2:
        for c in strips:
            inside = any(c is x for st in cbody for x in ast.walk(st))
            if not inside or c.args:
                res.add("C10-LEAD", tok.qual, f"extra-strip:{text(c)[:30]}", f"unexpected strip operation `{text(c)}` in the lexer: text is no longer verbatim", tok.file, c.lineno)
        if len(strips) < 2:
            pass
    for c in strips:
        if c.args or c.keywords:
            res.add("C10-LEAD", tok.qual, f"strip-arg:{text(c)[:30]}", f"`{text(c)}` strips only some characters; whitespace control removes all whitespace", tok.file, c.lineno)

    # ---- C10-RAW ------------------------------------------------------------------
    res.ob("raw-branch")
    raw = [b for b in branches if b[0] == "RAW" and not b[2]]
    ok = False
    for _k, body, _ in raw:
        kinds = [a for a in body if isinstance(a, ast.Assign) and is_name(a.targets[0], "kind")]
        vals = [a for a in body if isinstance(a, ast.Assign) and is_name(a.targets[0], "value")]
        if len(kinds) == 1 and fold_str(repo, mod, kinds[0].value, 0) == content_kind and len(vals) == 1 and _group_of(vals[0].value) == "raw":
            ok = True
    if not ok:
        res.add("C10-RAW", tok.qual, "raw-verbatim", "the RAW branch must emit match.group('raw') unchanged as a content token", tok.file, tok.line)
    # final yield: Token(kind, value, ...)
    res.ob("final-yield")
    last = tok.node.body[-1]
    loop = next((s for s in tok.node.body if isinstance(s, ast.For)), None)
    final = loop.body[-1] if loop else None
    if not (isinstance(final, ast.Expr) and isinstance(final.value, ast.Yield) and isinstance(final.value.value, ast.Call) and callee_name(final.value.value) == "Token" and [text(a) for a in final.value.value.args[:2]] == ["kind", "value"]):
        res.add("C10-RAW", tok.qual, "final-yield", "content / raw / comment / doc tokens must be yielded as Token(kind, value, ...)", tok.file, tok.line)

    # ---- C10-SILENT / C10-TEXT -------------------------------------------------------
    for q in (
        "liquid.builtin.tags.comment_tag.CommentNode",
        "liquid.builtin.tags.doc_tag.DocNode",
        "liquid.builtin.tags.inline_comment_tag.InlineCommentNode",
    ):
        c = repo.cls(q)
        for m in ("render_to_output", "render_to_output_async"):
            f = repo.find_method(c, m)
            res.ob(f"{q}.{m}")
            if f is None:
                raise AnchorMissing(f"{q}.{m}")
            if f.cls.qual == "liquid.ast.Node":
                continue  # delegating default -> sync method
            writes = [x for x in calls(f.node, nested=True) if callee_name(x) in ("write", "writelines", "print")]
            rets = [s for s in walk_no_nested(f.node) if isinstance(s, ast.Return)]
            if writes or not rets or not all(isinstance(r.value, ast.Constant) and r.value.value in (0, False) for r in rets):
                res.add("C10-SILENT", f.qual, "writes", f"{f.qual} must write nothing and return 0 (comment and doc bodies are never output)", f.file, f.line)
    cn = repo.own_method("liquid.builtin.content.ContentNode", "render_to_output")
    res.ob(cn.qual)
    w = [x for x in calls(cn.node) if callee_name(x) == "write"]
    if len(w) != 1 or not (w[0].args and attr_chain(w[0].args[0]) == ["self", "text"]):
        res.add("C10-TEXT", cn.qual, "write-text", "ContentNode must write exactly self.text", cn.file, cn.line)
    ci = repo.own_method("liquid.builtin.content.ContentNode", "__init__")
    res.ob(ci.qual)
    if not any(isinstance(s, ast.Assign) and attr_chain(s.targets[0]) == ["self", "text"] and is_name(s.value, "text") for s in walk_no_nested(ci.node)):
        res.add("C10-TEXT", ci.qual, "text-unchanged", "ContentNode.__init__ must keep the text unchanged", ci.file, ci.line)
    lp = repo.own_method("liquid.builtin.content.Literal", "parse")
    res.ob(lp.qual)
    rets = [s for s in walk_no_nested(lp.node) if isinstance(s, ast.Return)]
    if not (len(rets) == 1 and isinstance(rets[0].value, ast.Call) and len(rets[0].value.args) == 2 and text(rets[0].value.args[1]) == f"{text(rets[0].value.args[0])}.value"):
        res.add("C10-TEXT", lp.qual, "token-value", "Literal.parse must build the content node from token.value unchanged", lp.file, lp.line)
    res.stats.update(rule_sets=len(lm.rulesets), alternatives=sorted({a.kind for rs in lm.rulesets for a in rs.alts}), kind_branches=len(branches))
    # ---- C10-BLANK ------------------------------------------------------------------
    # "text outside markup is output verbatim" also inside blocks: blank-block suppression drops
    # the whole output of a block whose nodes all claim to be blank, so every claim must be sound
    # (sa/engines/blank.py): text nodes are blank iff whitespace, nodes that write computed values
    # or foreign nodes are never blank, containers derive the flag from all the blocks they render.
    from ..engines.blank import check_blank

    nb = check_blank(repo, res, "C10-BLANK", min_classes=25)
    res.stats["blank_claims_checked"] = nb
    # ---- C10-CURSOR -----------------------------------------------------------------
    from ..cursor import OPAQUE, CursorRun
    from ..normalize import nfunc

    decided = []
    for c in sorted(repo.subclasses("liquid.tag.Tag", strict=True), key=lambda k: k.qual):
        blk = repo.find_attr(c, "block")
        if blk is None or not (isinstance(blk[1], ast.Constant) and blk[1].value is False):
            continue
        pm = repo.find_method(c, "parse")
        if pm is None or pm.cls is None or pm.cls.qual == "liquid.tag.Tag":
            continue
        f = nfunc(repo, pm)  # private helpers of the tag inlined
        ps = [p for p in f.params() if p not in ("self", "cls")]
        if not ps:
            continue
        run_ = CursorRun(f.node, ps[0]).run()
        if run_.opaque:
            if c.qual in CURSOR_DECIDED:
                raise AnchorMissing(f"C10-CURSOR: {pm.qual} is no longer decidable by the cursor typestate ({run_.opaque[0]}); re-derive")
            res.sample({"rule": "C10-CURSOR", "tag": c.qual, "note": f"not decided: {run_.opaque[0]}"})
            continue
        decided.append(c.qual)
        res.ob(f"cursor:{pm.qual}", max(1, run_.returns))
        seen_b = set()
        for b in run_.bad:
            if (b.state, getattr(b.node, "lineno", 0)) in seen_b:
                continue
            seen_b.add((b.state, getattr(b.node, "lineno", 0)))
            what = {"LOOSE": "after it stepped past the tag token without checking that the next token is the tag's expression", "NOTEXPR": "after it stepped onto a token it found NOT to be the tag's expression", "PAST": "after it stepped past the tag's expression token"}.get(b.state, b.state)
            res.add("C10-CURSOR", pm.qual, f"return:{b.state}", f"{pm.qual} can return {what}: the parser advances once more after parse returns, so the token that follows the tag (text, an output statement, another tag) is skipped and never output", pm.file, getattr(b.node, "lineno", pm.line))
    missing = sorted(CURSOR_DECIDED - set(decided))
    if missing:
        raise AnchorMissing(f"C10-CURSOR: tags without a block that were decided on the reviewed tree are gone or no longer `block = False`: {missing}")
    res.stats["cursor_tags_decided"] = len(decided)
    res.stats["cursor_tags"] = [q.replace("liquid.", "") for q in decided]
    return res


# tags without a block whose parse the cursor typestate decided on the reviewed tree
CURSOR_DECIDED: set[str] = {
    "liquid.builtin.content.Literal",
    "liquid.builtin.illegal.Illegal",
    "liquid.builtin.output.Output",
    "liquid.builtin.tags.assign_tag.AssignTag",
    "liquid.builtin.tags.cycle_tag.CycleTag",
    "liquid.builtin.tags.decrement_tag.DecrementTag",
    "liquid.builtin.tags.echo_tag.EchoTag",
    "liquid.builtin.tags.for_tag.BreakTag",
    "liquid.builtin.tags.for_tag.ContinueTag",
    "liquid.builtin.tags.include_tag.IncludeTag",
    "liquid.builtin.tags.increment_tag.IncrementTag",
    "liquid.builtin.tags.inline_comment_tag.InlineCommentTag",
    "liquid.builtin.tags.liquid_tag.LiquidTag",
    "liquid.builtin.tags.render_tag.RenderTag",
}


def selftest(repo: Repo):
    from ..selftest import Variant, text_edit

    def v(name, rel, old, new, expect, count=1):
        return lambda: Variant(name, text_edit(repo, rel, old, new, count), expect)

    L = "liquid/lex.py"
    return [
        v("assign-eats-its-expression", "liquid/builtin/tags/assign_tag.py", "tokens = stream.into_inner(tag=token, eat=False)", "tokens = stream.into_inner(tag=token)", "C10-CURSOR"),
        v("break-steps-past-tag", "liquid/builtin/tags/for_tag.py", "        stream.expect(TOKEN_TAG, value=TAG_BREAK)\n", "        stream.eat(TOKEN_TAG)\n", "C10-CURSOR"),
        v("liquid-tag-steps-without-peek", "liquid/builtin/tags/liquid_tag.py", "        if stream.peek.kind != TOKEN_EXPRESSION:", "        if stream.peek.kind == TOKEN_EOF:\n            next(stream)\n            block = BlockNode(token, [])\n        elif stream.peek.kind != TOKEN_EXPRESSION:", "C10-CURSOR"),
        lambda: Variant("inline-comment-early-return-is-silent", text_edit(repo, "liquid/builtin/tags/inline_comment_tag.py", "        if stream.peek.kind == TOKEN_EXPRESSION:\n            next(stream)\n", "        if stream.peek.kind != TOKEN_EXPRESSION:\n            return self.node_class(token, text=stream.current.value)\n        next(stream)\n        if True:\n", 1), "", silent=True),
        v("raw-open-hyphen", L, 'lstrip = bool(match.group("rsr_e"))', 'lstrip = bool(match.group("rsr"))', "C10-TRAIL"),
        v("doc-open-hyphen", L, 'lstrip = bool(match.group("rsd"))', 'lstrip = bool(match.group("lsd"))', "C10-TRAIL"),
        v("output-never-trims", L, '            lstrip = bool(match.group("rss"))\n', "", "C10-TRAIL"),
        v("comment-never-trims", L, '            lstrip = bool(match.group("rsc"))\n', "            pass\n", "C10-TRAIL"),
        v("endcomment-ignores-hyphen", L, '                        lstrip = bool(match.group("rst"))\n                        continue', "                        continue", "C10-TRAIL"),
        v("tag-trims-conditionally", L, '            value = match.group("expr")\n            lstrip = bool(match.group("rst"))\n', '            value = match.group("expr")\n            if value:\n                lstrip = bool(match.group("rst"))\n', "C10-TRAIL"),
        v("content-no-rstrip", L, '            if match.group("rstrip"):\n                value = value.rstrip()\n', "", "C10-LEAD"),
        v("content-strips-spaces-only", L, "                value = value.lstrip()", '                value = value.lstrip(" ")', "C10-LEAD"),
        v("content-always-lstrip", L, "            if lstrip:\n                value = value.lstrip()", "            if True:\n                value = value.lstrip()", "C10-LEAD"),
        v("raw-body-stripped", L, '            value = match.group("raw")\n', '            value = match.group("raw").strip()\n', "C10-"),
        v("raw-rule-drops-end-hyphen", L, 'rf"{tag_s}-?\\s*endraw\\s*(?P<rsr_e>-?){tag_e}"', 'rf"{tag_s}-?\\s*endraw\\s*-?{tag_e}"', "C10-TRAIL"),
        v("lookahead-without-hyphen", L, 'content_pattern = rf".+?(?=(({tag_s}|{stmt_s})(?P<rstrip>-?))|\\Z)"', 'content_pattern = rf".+?(?=(({tag_s}|{stmt_s}))|$)"', "C10-"),
        v("comment-node-writes", "liquid/builtin/tags/comment_tag.py", "        \"\"\"Render the node to the output buffer.\"\"\"\n        return 0", "        \"\"\"Render the node to the output buffer.\"\"\"\n        return buffer.write(self.text or \"\")", "C10-SILENT"),
        v("content-node-strips", "liquid/builtin/content.py", "        return buffer.write(self.text)", "        return buffer.write(self.text.strip())", "C10-TEXT"),
        v("raw-empty-skips-flag", L, '            value = match.group("raw")\n', '            value = match.group("raw")\n            if not value:\n                continue\n', "C10-TRAIL"),
        v("comment-lookahead-missing", L, 'content_pattern = rf".+?(?=(({tag_s}|{stmt_s}|{comment_s})(?P<rstrip>-?))|\\Z)"', 'content_pattern = rf".+?(?=(({tag_s}|{stmt_s})(?P<rstrip>-?))|\\Z)"', "C10-LEAD"),
    ]
