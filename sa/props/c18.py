"""C18 — template inheritance resolves blocks to the most-derived definition (clauses).

  C18-STOP    ``ExtendsNode.render_to_output*`` builds the block stacks from the current
              template, renders the base template and then *always* raises ``StopRender`` (no
              normal return), and ``BoundTemplate.render_with_context*`` turns ``StopRender``
              into ``break`` — nothing after ``{% extends %}`` is rendered except through blocks.
  C18-CYCLE   in ``_build_block_stacks*`` the name of every parent is tested against the
              ``seen`` set (raising ``TemplateInheritanceError``) and added to it before the
              parent is loaded — a circular chain is cut off instead of recursing; the walk
              moves strictly upwards (``next_template = _stack_template_blocks(next_template)``).
  C18-CHECKS  ``_stack_blocks`` raises ``TemplateInheritanceError`` for more than one
              ``extends`` and for a duplicate block name before ``_store_blocks`` records
              anything; ``BlockTag.parse`` compares the ``endblock`` name with the block's name
              and raises on mismatch.
  C18-SELECT  ``_store_blocks`` appends each template's definition to the block's stack in
              chain order (leaf first) and links ``stack[-2].parent = stack[-1]``;
              ``BlockNode.render_to_output*`` renders ``block_stack[0]`` (the most derived
              definition) with a ``block`` drop whose parent is that item's parent, and
              ``BlockDrop['super']`` renders exactly one step up (``self.parent.block``) with
              ``parent=self.parent.parent``.
  C18-REQUIRED a required block raises ``RequiredBlockError`` on the direct path (no stack)
              and on the stacked path (top item still required) before anything is rendered;
              an override clears ``required`` only when a more-derived definition exists.
Parity of the sync/async copies is decided under C01.
Not decided: the rendered output of particular chains (value level).
"""

from __future__ import annotations

import ast

from ..astutil import call_recv, attr_chain, callee_name, calls, is_name, text, unwrap_await
from ..core import Result
from ..flow import MustFlow, node_calls
from ..model import AnchorMissing, Repo, walk_no_nested

PID = "C18"
MIN_OBLIGATIONS = 25
M = "liquid.extra.tags.extends_tag"


def check_extends_cycle(repo: Repo, res: Result, rule: str = "C18-CYCLE") -> None:
    """The walk up an ``extends`` chain terminates and rejects cycles: the parent name is tested
    against a fresh ``seen`` set (raise), recorded and loaded — the same expression all three
    times — and the walk is the plain ``while next_template`` loop.  Shared with C09 (termination
    of the two chain-walk loops)."""
    # ---- C18-CYCLE ------------------------------------------------------------------
    for fq, gt in ((f"{M}._build_block_stacks", "get_template"), (f"{M}._build_block_stacks_async", "get_template_async")):
        f0 = repo.func(fq)
        # private helpers shared by the sync/async pair are inlined (sa/normalize.py); the block
        # collection helpers are not part of this rule and stay calls
        from ..normalize import NFunc, normalize

        f = NFunc(f0, normalize(repo, f0, keep=("_stack_blocks", "_store_blocks", "_find_inheritance_nodes", "_find_inheritance_nodes_async"), aliases=False))
        inner = next((n for n in f.node.body if isinstance(n, (ast.FunctionDef, ast.AsyncFunctionDef)) and n.name == "_stack_template_blocks"), None)
        res.ob(fq, 3)
        if inner is None:
            res.add(rule, fq, "shape", f"{fq}: helper _stack_template_blocks not found", f.file, f.line)
            continue
        state = {"loaded_checked": None}

        def gen(st):
            out = set()
            for c in calls(st):
                if callee_name(c) == "add" and is_name(call_recv(c), "seen"):
                    out.add("recorded")
            return out

        def gen_cond(test, truth):
            if isinstance(test, ast.Compare) and isinstance(test.ops[0], ast.In) and is_name(test.comparators[0], "seen") and not truth:
                return {"not-seen"}
            return set()

        def visit(node, st):
            for c in node_calls(node):
                if callee_name(c) == gt:
                    state["loaded_checked"] = {"not-seen", "recorded"} <= st

        MustFlow(gen=gen, gen_cond=gen_cond, visit=visit).run(inner)
        if state["loaded_checked"] is not True:
            res.add(rule, fq, "seen-before-load", f"{fq}: the parent is loaded without first testing `name in seen` (raise) and recording it — a circular extends chain recurses until the stack overflows", f.file, inner.lineno)
        seen_if = next((n for n in ast.walk(inner) if isinstance(n, ast.If) and isinstance(n.test, ast.Compare) and is_name(n.test.comparators[0], "seen")), None)
        if seen_if is None or not (len(seen_if.body) == 1 and isinstance(seen_if.body[0], ast.Raise) and "TemplateInheritanceError" in text(seen_if.body[0])):
            res.add(rule, fq, "raise", f"{fq}: a repeated parent name must raise TemplateInheritanceError", f.file, inner.lineno)
        # the key tested, recorded and loaded is the same expression
        # names connected by plain copies `a = b` denote the same value (an inlined helper hands its
        # result over through such a copy); each name may have only one non-constant source
        src: dict[str, set] = {}
        for st_ in ast.walk(inner):
            if isinstance(st_, ast.Assign) and len(st_.targets) == 1 and isinstance(st_.targets[0], ast.Name) and isinstance(st_.value, ast.Name):
                src.setdefault(st_.targets[0].id, set()).add(st_.value.id)

        def rep(name: str, depth=0) -> str:
            s_ = src.get(name)
            if s_ and len(s_) == 1 and depth < 5:
                return rep(next(iter(s_)), depth + 1)
            return name

        def ktext(e) -> str:
            import copy as _copy

            e = _copy.deepcopy(e)
            for n_ in ast.walk(e):
                if isinstance(n_, ast.Name):
                    n_.id = rep(n_.id)
            return text(e)

        keyt = ktext(seen_if.test.left) if seen_if is not None else None
        adds = [ktext(c.args[0]) for c in calls(inner) if callee_name(c) == "add" and is_name(call_recv(c), "seen")]
        loads = [ktext(c.args[0]) for c in calls(inner) if callee_name(c) == gt and c.args]
        if not adds or any(a != keyt for a in adds) or any(l != keyt for l in loads):
            res.add(rule, fq, f"key:{keyt}:{adds}:{loads}", f"{fq}: the name tested against `seen`, recorded in it and loaded must be the same expression", f.file, inner.lineno)
        # the walk: while next_template: next_template = _stack_template_blocks(next_template)
        loops = [n for n in f.node.body if isinstance(n, ast.While)]
        ok = len(loops) == 1 and is_name(loops[0].test, "next_template") and any(
            isinstance(s, ast.Assign) and is_name(s.targets[0], "next_template") and isinstance(unwrap_await(s.value), ast.Call) and callee_name(unwrap_await(s.value)) == "_stack_template_blocks" and is_name(unwrap_await(s.value).args[0], "next_template")
            for s in loops[0].body
        )
        if not ok:
            res.add(rule, fq, "walk", f"{fq}: the chain walk must be `while next_template: next_template = _stack_template_blocks(next_template)`", f.file, f.line)
        if not any(isinstance(s, (ast.Assign, ast.AnnAssign)) and "seen" in text(s).split("=")[0] and "set()" in text(s) for s in f.node.body):
            res.add(rule, fq, "fresh-seen", f"{fq}: `seen` must be a fresh set per call", f.file, f.line)



def run(repo: Repo) -> Result:
    res = Result(PID)
    res.rules = ["C18-BLANK", "C18-STOP", "C18-CYCLE", "C18-CHECKS", "C18-SELECT", "C18-REQUIRED"]
    res.explanation = "presence and order (dominance) of the inheritance cut-offs and the block-stack selection shape"
    res.assumptions = ["selection semantics over arbitrary chains beyond these shapes are value-level"]

    # ---- C18-STOP -----------------------------------------------------------------
    for m, bs, rw in (("render_to_output", "_build_block_stacks", "render_with_context"), ("render_to_output_async", "_build_block_stacks_async", "render_with_context_async")):
        f = repo.own_method(f"{M}.ExtendsNode", m)
        res.ob(f.qual, 3)
        flow = MustFlow()
        exits = flow.run(f.node)
        kinds = {k for k, _, _ in exits}
        if kinds != {"raise"} or not all(text(n.exc) in ("StopRender", "StopRender()") for k, n, _ in exits if k == "raise"):
            res.add("C18-STOP", f.qual, f"exits:{sorted(kinds)}", f"{f.qual} must end every path with `raise StopRender` (exits found: {sorted(kinds)}): otherwise the child template's own content is rendered after its parent", f.file, f.line)
        order = [callee_name(c) for c in calls(f.node) if callee_name(c) in (bs, rw, "clear")]
        if order[:2] != [bs, rw]:
            res.add("C18-STOP", f.qual, f"order:{order}", f"{f.qual} must build the block stacks and then render the base template", f.file, f.line)
        b = next((c for c in calls(f.node) if callee_name(c) == bs), None)
        if b is None or [text(a) for a in b.args[:2]] != ["context", "context.template"]:
            res.add("C18-STOP", f.qual, "stack-from-current", f"{f.qual} must build the stacks from context.template (the template that contains the extends tag)", f.file, f.line)
    for m in ("render_with_context", "render_with_context_async"):
        f = repo.own_method("liquid.template.BoundTemplate", m)
        res.ob(f.qual)
        ok = any(isinstance(h, ast.ExceptHandler) and text(h.type) == "StopRender" and len(h.body) == 1 and isinstance(h.body[0], ast.Break) for h in ast.walk(f.node))
        if not ok:
            res.add("C18-STOP", f.qual, "stoprender-break", f"{f.qual} must handle StopRender with `break`", f.file, f.line)
    # nobody else catches StopRender
    for g in repo.all_functions():
        for h in ast.walk(g.node):
            if isinstance(h, ast.ExceptHandler) and h.type is not None and "StopRender" in text(h.type) and g.name not in ("render_with_context", "render_with_context_async"):
                res.ob(f"stoprender-handler:{g.qual}")
                res.add("C18-STOP", g.qual, "foreign-handler", f"{g.qual} catches StopRender", g.file, h.lineno)

    check_extends_cycle(repo, res)

    # ---- C18-BLANK ------------------------------------------------------------------
    # a `{% block %}` renders its most-derived override (another template's nodes) and an
    # `{% extends %}` renders the base template: neither output is predictable from the node's own
    # default body, so neither may claim to be blank (sa/engines/blank.py)
    from ..engines.blank import check_blank

    check_blank(repo, res, "C18-BLANK", only=lambda c: c.module.name == M, min_classes=2)

    # ---- C18-CHECKS -------------------------------------------------------------------
    sb = repo.func(f"{M}._stack_blocks")
    res.ob(sb.qual, 3)
    state = {"store_ok": None}

    def gen_cond2(test, truth):
        t = text(test)
        out = set()
        if t == "len(extends) > 1" and not truth:
            out.add("single-extends")
        return out

    def gen2(st):
        # after the duplicate-name loop
        if isinstance(st, ast.For) or False:
            return set()
        return set()

    # simple ordered-shape check: statements of the body in order
    body = [s for s in sb.node.body if not (isinstance(s, ast.Expr) and isinstance(s.value, ast.Constant))]
    idx = {"extends_raise": None, "dup_loop": None, "store": None}
    for i, st in enumerate(body):
        if isinstance(st, ast.If) and text(st.test) == "len(extends) > 1" and len(st.body) == 1 and isinstance(st.body[0], ast.Raise) and "TemplateInheritanceError" in text(st.body[0]):
            idx["extends_raise"] = i
        if isinstance(st, ast.For) and text(st.iter) == "blocks":
            has = any(isinstance(n, ast.If) and "in seen_block_names" in text(n.test) and isinstance(n.body[0], ast.Raise) and "TemplateInheritanceError" in text(n.body[0]) for n in ast.walk(st))
            adds = any(callee_name(c) == "add" and text(call_recv(c)) == "seen_block_names" for c in calls(st))
            if has and adds:
                idx["dup_loop"] = i
        if isinstance(st, ast.Expr) and isinstance(st.value, ast.Call) and callee_name(st.value) == "_store_blocks":
            idx["store"] = i
    if idx["extends_raise"] is None:
        res.add("C18-CHECKS", sb.qual, "too-many-extends", "_stack_blocks must raise TemplateInheritanceError when a template has more than one extends tag", sb.file, sb.line)
    if idx["dup_loop"] is None:
        res.add("C18-CHECKS", sb.qual, "duplicate-block", "_stack_blocks must raise TemplateInheritanceError for a duplicate block name", sb.file, sb.line)
    if idx["store"] is None:
        res.add("C18-CHECKS", sb.qual, "store", "_stack_blocks must record the blocks with _store_blocks", sb.file, sb.line)
    elif None not in idx.values() and not (idx["extends_raise"] < idx["store"] and idx["dup_loop"] < idx["store"]):
        res.add("C18-CHECKS", sb.qual, "order", "the too-many-extends and duplicate-block checks must precede _store_blocks", sb.file, sb.line)
    bt = repo.own_method(f"{M}.BlockTag", "parse")
    res.ob(bt.qual)
    ok = any(isinstance(n, ast.If) and text(n.test) == "end_block_name != block_name" and isinstance(n.body[0], ast.Raise) and "TemplateInheritanceError" in text(n.body[0]) for n in ast.walk(bt.node))
    if not ok:
        res.add("C18-CHECKS", bt.qual, "endblock-name", "BlockTag.parse must reject an endblock whose name differs from the block's name", bt.file, bt.line)

    # ---- C18-SELECT ---------------------------------------------------------------------
    st_ = repo.func(f"{M}._store_blocks")
    res.ob(st_.qual, 3)
    s = text(st_.node)
    if "stack.append(" not in s or "stack[-2].parent = stack[-1]" not in s or "if len(stack) > 1" not in s:
        res.add("C18-SELECT", st_.qual, "link", "_store_blocks must append the definition and link stack[-2].parent = stack[-1]", st_.file, st_.line)
    if "stack = block_stacks[block.name]" not in s:
        res.add("C18-SELECT", st_.qual, "by-name", "_store_blocks must keep one stack per block name", st_.file, st_.line)
    if "required = False if stack and (not block.required) else block.required" not in s:
        res.add("C18-REQUIRED", st_.qual, "required-carry", "a non-required parent definition below a more derived one clears `required`; anything else keeps block.required", st_.file, st_.line)
    if "required=required" not in s or "block=block" not in s or "source_name=source_name" not in s:
        res.add("C18-SELECT", st_.qual, "item", "_store_blocks must record block, required and source_name on the stack item", st_.file, st_.line)
    for m, rd in (("render_to_output", "render"), ("render_to_output_async", "render_async")):
        f = repo.own_method(f"{M}.BlockNode", m)
        res.ob(f.qual, 4)
        t = text(f.node)
        if "stack_item = block_stack[0]" not in t:
            res.add("C18-SELECT", f.qual, "top-of-stack", f"{f.qual} must render block_stack[0], the most derived definition", f.file, f.line)
        if f"stack_item.block.block.{rd}(ctx, buffer)" not in t:
            res.add("C18-SELECT", f.qual, "render-selected", f"{f.qual} must render the selected definition's block on the block-scoped copy", f.file, f.line)
        if "parent=stack_item.parent" not in t:
            res.add("C18-SELECT", f.qual, "super-parent", f"{f.qual}: the block drop's parent must be the selected item's parent", f.file, f.line)
        if ".get(self.name)" not in t:
            res.add("C18-SELECT", f.qual, "by-name", f"{f.qual} must look its stack up by its own name", f.file, f.line)
        # REQUIRED: both raises precede any render call
        raises = [n for n in walk_no_nested(f.node) if isinstance(n, ast.Raise) and "RequiredBlockError" in text(n)]
        if len(raises) != 2:
            res.add("C18-REQUIRED", f.qual, f"raises:{len(raises)}", f"{f.qual} must raise RequiredBlockError on the direct path (self.required) and on the stacked path (stack_item.required)", f.file, f.line)
        conds = [text(n.test) for n in walk_no_nested(f.node) if isinstance(n, ast.If) and any(isinstance(x, ast.Raise) and "RequiredBlockError" in text(x) for x in n.body)]
        if sorted(conds) != ["self.required", "stack_item.required"]:
            res.add("C18-REQUIRED", f.qual, f"conds:{conds}", f"{f.qual}: RequiredBlockError must be guarded by self.required / stack_item.required", f.file, f.line)
        # order: the stacked raise precedes the copy/render
        lines_raise = [n.lineno for n in raises]
        render_lines = [c.lineno for c in calls(f.node) if callee_name(c) == rd]
        if render_lines and lines_raise and not (min(lines_raise) < min(render_lines) and sorted(lines_raise)[-1] < max(render_lines)):
            res.add("C18-REQUIRED", f.qual, "order", f"{f.qual}: the required checks must come before the block is rendered", f.file, f.line)
    bd = repo.own_method(f"{M}.BlockDrop", "__getitem__")
    res.ob(bd.qual, 2)
    t = text(bd.node)
    if "self.parent.block.block.render(self.context, buf)" not in t or "parent=self.parent.parent" not in t:
        res.add("C18-SELECT", bd.qual, "super-one-step", "block.super must render the next definition up (self.parent.block) with parent=self.parent.parent", bd.file, bd.line)
    if "if not self.parent" not in t:
        res.add("C18-SELECT", bd.qual, "no-parent", "block.super without a parent must be undefined", bd.file, bd.line)
    return res


def selftest(repo: Repo):
    from ..selftest import Variant, text_edit

    def v(name, rel, old, new, expect, count=1):
        return lambda: Variant(name, text_edit(repo, rel, old, new, count), expect)

    P = "liquid/extra/tags/extends_tag.py"
    from ..selftest import ast_edit

    def drop(pred, which_fn, expect, name):
        def make():
            def edit(tree):
                done = False
                for fn in ast.walk(tree):
                    if isinstance(fn, (ast.FunctionDef, ast.AsyncFunctionDef)) and fn.name == which_fn:
                        for parent in ast.walk(fn):
                            for fld in ("body", "orelse"):
                                seq = getattr(parent, fld, None)
                                if isinstance(seq, list):
                                    for k, st in enumerate(seq):
                                        if pred(st) and not done:
                                            seq[k] = ast.Pass()
                                            done = True
                return done
            return Variant(name, ast_edit(repo, P, edit), expect)
        return make

    extra = [
        drop(lambda st: isinstance(st, ast.If) and "in seen" in text(st.test), "_build_block_stacks", "C18-CYCLE", "seen-test-dropped-sync"),
        drop(lambda st: isinstance(st, ast.Expr) and "seen.add(" in text(st), "_build_block_stacks_async", "C18-CYCLE", "seen-not-recorded-async"),
        drop(lambda st: isinstance(st, ast.If) and text(st.test) == "stack_item.required", "render_to_output", "C18-REQUIRED", "required-not-enforced-stacked"),
        drop(lambda st: isinstance(st, ast.If) and text(st.test) == "self.required", "render_to_output_async", "C18-REQUIRED", "required-not-enforced-direct"),
    ]
    return extra + [
        v("no-stoprender", P, "        base_template.render_with_context(context, buffer)\n        context.tag_namespace[\"extends\"].clear()\n        raise StopRender", "        base_template.render_with_context(context, buffer)\n        context.tag_namespace[\"extends\"].clear()\n        return 0", "C18-STOP"),
        v("stoprender-conditional", P, "        await base_template.render_with_context_async(context, buffer)\n        context.tag_namespace[\"extends\"].clear()\n        raise StopRender", "        await base_template.render_with_context_async(context, buffer)\n        context.tag_namespace[\"extends\"].clear()\n        if base_template.nodes:\n            raise StopRender\n        return 0", "C18-STOP"),
        v("stoprender-continues", "liquid/template.py", "                except StopRender:\n                    break", "                except StopRender:\n                    continue", "C18-STOP", count=2),
        v("duplicate-blocks-allowed", P, "        if block.name in seen_block_names:\n            raise TemplateInheritanceError(\n                f\"duplicate block {block.name}\",\n                token=block.token,\n            )\n", "", "C18-CHECKS"),
        v("many-extends-allowed", P, "    if len(extends) > 1:\n        raise TemplateInheritanceError(\n            \"too many 'extends' tags\",\n            token=extends[1].token,\n            template_name=template_name,\n        )\n", "", "C18-CHECKS"),
        v("endblock-name-ignored", P, "                if end_block_name != block_name:", "                if False:", "C18-CHECKS"),
        v("least-derived-wins", P, "        stack_item = block_stack[0]", "        stack_item = block_stack[-1]", "C18-SELECT", count=2),
        v("super-skips-a-level", P, "                    parent=self.parent.parent,", "                    parent=None,", "C18-SELECT"),
        v("links-wrong-direction", P, "            stack[-2].parent = stack[-1]", "            stack[-1].parent = stack[-2]", "C18-SELECT"),
        v("required-always-cleared", P, "        required = False if stack and not block.required else block.required", "        required = False if stack else block.required", "C18-REQUIRED"),
    ]
