"""C18 — template inheritance resolves blocks to the most-derived definition (clauses).

  C18-STOP    ``ExtendsNode.render_to_output*`` builds the block stacks from the current
              template, renders the base template and then *always* raises ``StopRender`` (no
              normal return), and ``BoundTemplate.render_with_context*`` turns ``StopRender``
              into ``break`` — nothing after ``{% extends %}`` is rendered except through blocks.
  C18-CYCLE   in ``_build_block_stacks*`` the name of every parent is tested against the
              ``seen`` set (raising ``TemplateInheritanceError``) and added to it before the
              parent is loaded — a circular chain is cut off instead of recursing; the walk
              moves strictly upwards (``next_template = _stack_template_blocks(next_template)``).
  C18-CHECKS  ``_stack_blocks`` raises ``TemplateInheritanceError`` for more than one
              ``extends`` and for a duplicate block name before ``_store_blocks`` records
              anything; ``BlockTag.parse`` compares the ``endblock`` name with the block's name
              and raises on mismatch.
  C18-SELECT  ``_store_blocks`` appends each template's definition to the block's stack in
              chain order (leaf first) and links ``stack[-2].parent = stack[-1]``;
              ``BlockNode.render_to_output*`` renders ``block_stack[0]`` (the most derived
              definition) with a ``block`` drop whose parent is that item's parent, and
              ``BlockDrop['super']`` renders exactly one step up (``self.parent.block``) with
              ``parent=self.parent.parent``.
  C18-REQUIRED a required block raises ``RequiredBlockError`` on the direct path (no stack)
              and on the stacked path (top item still required) before anything is rendered;
              an override clears ``required`` only when a more-derived definition exists.
  C18-SCOPE   ``RenderContext.copy(block_scope=True)`` chains the new context's scope to the caller's
              live ``self.scope`` (after the new locals and the block namespace): a block nested in
              a loop or in another block sees what the root's block would see in that place.
Parity of the sync/async copies is decided under C01.
Not decided: the rendered output of particular chains (value level).
"""

from __future__ import annotations

import ast

from ..astutil import call_recv, attr_chain, callee_name, calls, is_name, text, unwrap_await
from ..core import Result
from ..flow import MustFlow, node_calls
from ..model import AnchorMissing, Repo, walk_no_nested

PID = "C18"
MIN_OBLIGATIONS = 25
M = "liquid.extra.tags.extends_tag"


def _seen_summary(fn_node: ast.AST, seen: str):
    """Does ``fn_node`` (a helper taking the ``seen`` set) test a name against it (raise
    TemplateInheritanceError when present) and record it, on every path that returns a value other
    than None?  Returns (returned variable, key attribute) — e.g. ("extends_node", "name") for
    ``if e.name in seen: raise ...; seen.add(e.name); return e`` — or None."""

    def gen(st):
        return {"recorded:" + text(c.args[0]) for c in calls(st) if callee_name(c) == "add" and is_name(call_recv(c), seen) and c.args}

    def gen_cond(test, truth):
        if isinstance(test, ast.Compare) and len(test.ops) == 1 and isinstance(test.ops[0], ast.In) and is_name(test.comparators[0], seen) and not truth:
            return {"not-seen:" + text(test.left)}
        return set()

    exits = MustFlow(gen=gen, gen_cond=gen_cond).run(fn_node)
    out = None
    for kind, node, st in exits:
        if kind != "return" or node.value is None or (isinstance(node.value, ast.Constant) and node.value.value is None):
            continue
        v = node.value
        if not isinstance(v, ast.Name):
            return None
        keys = {f.split(":", 1)[1] for f in st if f.startswith("recorded:")} & {f.split(":", 1)[1] for f in st if f.startswith("not-seen:")}
        attrs = {k.split(".", 1)[1] for k in keys if k.startswith(v.id + ".") and k.count(".") == 1}
        if not attrs:
            return None
        cand = (v.id, sorted(attrs)[0])
        if out is not None and out[1] != cand[1]:
            return None
        out = cand
    if out is None:
        return None
    # a repeated name raises TemplateInheritanceError
    ok_raise = any(isinstance(n, ast.If) and isinstance(n.test, ast.Compare) and isinstance(n.test.ops[0], ast.In) and is_name(n.test.comparators[0], seen) and len(n.body) == 1 and isinstance(n.body[0], ast.Raise) and "TemplateInheritanceError" in text(n.body[0]) for n in ast.walk(fn_node))
    return out if ok_raise else None


def check_extends_cycle(repo: Repo, res: Result, rule: str = "C18-CYCLE") -> None:
    """The walk up an ``extends`` chain terminates and rejects cycles: before a parent is loaded
    its name is tested against a fresh ``seen`` set (raise TemplateInheritanceError) and recorded —
    the same expression all three times — and the walk is one ``while x:`` loop that rebinds x.
    The test + record may sit next to the load (in the function or its closure) or in a helper
    that hands back the node to load (summarised by ``_seen_summary``, not inlined).  Shared with
    C09 (termination of the two chain-walk loops)."""
    mod = repo.module(M)
    for fq, gt in ((f"{M}._build_block_stacks", "get_template"), (f"{M}._build_block_stacks_async", "get_template_async")):
        f = repo.func(fq)
        res.ob(fq, 3)

        def has_load(n):
            return any(isinstance(c, ast.Call) and callee_name(c) == gt for c in ast.walk(n))

        inner = next((n for n in f.node.body if isinstance(n, (ast.FunctionDef, ast.AsyncFunctionDef)) and has_load(n)), None)
        closure = inner is not None
        if inner is None:
            inner = f.node
        if not has_load(inner):
            res.add(rule, fq, "shape", f"{fq}: no {gt}(...) call found: how is the parent template loaded?", f.file, f.line)
            continue
        # helpers of the module that establish "tested and recorded" for the node they return
        helpers = {}
        for g in mod.functions.values():
            ps = g.params()
            if "seen" in ps and g.node is not f.node:
                sm = _seen_summary(g.node, "seen")
                if sm is not None:
                    helpers[g.name] = sm
        state = {"ok": None, "keys": []}

        def gen(st):
            out = set()
            for c in calls(st):
                if callee_name(c) == "add" and is_name(call_recv(c), "seen") and c.args:
                    out.add("recorded:" + text(c.args[0]))
            if isinstance(st, ast.Assign) and len(st.targets) == 1 and isinstance(st.targets[0], ast.Name):
                v = unwrap_await(st.value)
                if isinstance(v, ast.Call) and callee_name(v) in helpers and any(is_name(a, "seen") for a in list(v.args) + [k.value for k in v.keywords]):
                    out.add(f"est:{st.targets[0].id}.{helpers[callee_name(v)][1]}")
            return out

        def gen_cond(test, truth):
            if isinstance(test, ast.Compare) and len(test.ops) == 1 and isinstance(test.ops[0], ast.In) and is_name(test.comparators[0], "seen") and not truth:
                return {"not-seen:" + text(test.left)}
            return set()

        def kill(st, facts):
            dead = set()
            if not hasattr(st, "body") and any(isinstance(c, ast.Call) and callee_name(c) == gt for c in ast.walk(st)):
                # a load consumes the check: the next load needs its own test + record
                dead |= {x for x in facts if x.startswith(("not-seen:", "recorded:"))}
            for n in ast.walk(st) if not hasattr(st, "body") else []:
                if isinstance(n, ast.Name) and isinstance(n.ctx, (ast.Store, ast.Del)):
                    dead |= {x for x in facts if x.split(":", 1)[1].split(".")[0] == n.id}
            return dead - set(gen(st))

        def visit(node, st):
            for c in node_calls(node):
                if callee_name(c) == gt and c.args:
                    key = text(c.args[0])
                    ok_here = f"est:{key}" in st or (f"not-seen:{key}" in st and f"recorded:{key}" in st)
                    state["keys"].append((key, sorted(st)))
                    state["ok"] = ok_here if state["ok"] is None else (state["ok"] and ok_here)

        MustFlow(gen=gen, gen_cond=gen_cond, visit=visit, kill=kill).run(inner)
        if state["ok"] is not True:
            res.add(rule, fq, "seen-before-load", f"{fq}: the parent is loaded ({[k for k, _ in state['keys']]}) without that same name having been tested against `seen` (raise) and recorded since the previous load — a circular extends chain is walked for ever (or recurses until the stack overflows)", f.file, inner.lineno)
        # where the test is written out, it raises TemplateInheritanceError
        for n in ast.walk(inner):
            if isinstance(n, ast.If) and isinstance(n.test, ast.Compare) and len(n.test.ops) == 1 and isinstance(n.test.ops[0], ast.In) and is_name(n.test.comparators[0], "seen"):
                if not (len(n.body) == 1 and isinstance(n.body[0], ast.Raise) and "TemplateInheritanceError" in text(n.body[0])):
                    res.add(rule, fq, "raise", f"{fq}: a repeated parent name must raise TemplateInheritanceError", f.file, n.lineno)
        # the walk: one `while <var>:` loop whose body rebinds <var> — from the closure (called with
        # the template loaded last) or, in the flat form, from the next extends node
        loops = [n for n in walk_no_nested(f.node) if isinstance(n, ast.While)]
        ok = False
        if len(loops) == 1 and isinstance(loops[0].test, ast.Name):
            var = loops[0].test.id
            rebinds = [s_ for s_ in ast.walk(loops[0]) if isinstance(s_, ast.Assign) and any(is_name(t, var) for t in s_.targets)]
            if closure:
                ok = any(isinstance(unwrap_await(s_.value), ast.Call) and is_name(unwrap_await(s_.value).func, inner.name) and unwrap_await(s_.value).args and is_name(unwrap_await(s_.value).args[0], var) for s_ in rebinds)
            else:
                ok = bool(rebinds)
        if not ok:
            res.add(rule, fq, "walk", f"{fq}: the chain walk must be a single `while x:` loop that rebinds x on every step (`next_template = _stack_template_blocks(next_template)`)", f.file, f.line)
        if not any(isinstance(s_, (ast.Assign, ast.AnnAssign)) and "seen" in text(s_).split("=")[0] and "set()" in text(s_) for s_ in f.node.body):
            res.add(rule, fq, "fresh-seen", f"{fq}: `seen` must be a fresh set per call", f.file, f.line)


def run(repo: Repo) -> Result:
    res = Result(PID)
    res.rules = ["C18-BLANK", "C18-STOP", "C18-CYCLE", "C18-CHECKS", "C18-SELECT", "C18-REQUIRED", "C18-SCOPE"]
    res.explanation = "presence and order (dominance) of the inheritance cut-offs and the block-stack selection shape"
    res.assumptions = ["selection semantics over arbitrary chains beyond these shapes are value-level"]

    # ---- C18-STOP -----------------------------------------------------------------
    for m, bs, rw in (("render_to_output", "_build_block_stacks", "render_with_context"), ("render_to_output_async", "_build_block_stacks_async", "render_with_context_async")):
        f = repo.own_method(f"{M}.ExtendsNode", m)
        res.ob(f.qual, 3)
        flow = MustFlow()
        exits = flow.run(f.node)
        kinds = {k for k, _, _ in exits}
        if kinds != {"raise"} or not all(text(n.exc) in ("StopRender", "StopRender()") for k, n, _ in exits if k == "raise"):
            res.add("C18-STOP", f.qual, f"exits:{sorted(kinds)}", f"{f.qual} must end every path with `raise StopRender` (exits found: {sorted(kinds)}): otherwise the child template's own content is rendered after its parent", f.file, f.line)
        order = [callee_name(c) for c in calls(f.node) if callee_name(c) in (bs, rw, "clear")]
        if order[:2] != [bs, rw]:
            res.add("C18-STOP", f.qual, f"order:{order}", f"{f.qual} must build the block stacks and then render the base template", f.file, f.line)
        b = next((c for c in calls(f.node) if callee_name(c) == bs), None)
        if b is None or [text(a) for a in b.args[:2]] != ["context", "context.template"]:
            res.add("C18-STOP", f.qual, "stack-from-current", f"{f.qual} must build the stacks from context.template (the template that contains the extends tag)", f.file, f.line)
    for m in ("render_with_context", "render_with_context_async"):
        f = repo.own_method("liquid.template.BoundTemplate", m)
        res.ob(f.qual)
        ok = any(isinstance(h, ast.ExceptHandler) and text(h.type) == "StopRender" and len(h.body) == 1 and isinstance(h.body[0], ast.Break) for h in ast.walk(f.node))
        if not ok:
            res.add("C18-STOP", f.qual, "stoprender-break", f"{f.qual} must handle StopRender with `break`", f.file, f.line)
    # nobody else catches StopRender
    for g in repo.all_functions():
        for h in ast.walk(g.node):
            if isinstance(h, ast.ExceptHandler) and h.type is not None and "StopRender" in text(h.type) and g.name not in ("render_with_context", "render_with_context_async"):
                res.ob(f"stoprender-handler:{g.qual}")
                res.add("C18-STOP", g.qual, "foreign-handler", f"{g.qual} catches StopRender", g.file, h.lineno)

    check_extends_cycle(repo, res)

    # ---- C18-BLANK ------------------------------------------------------------------
    # a `{% block %}` renders its most-derived override (another template's nodes) and an
    # `{% extends %}` renders the base template: neither output is predictable from the node's own
    # default body, so neither may claim to be blank (sa/engines/blank.py)
    from ..engines.blank import check_blank

    check_blank(repo, res, "C18-BLANK", only=lambda c: c.module.name == M, min_classes=2)

    # ---- C18-CHECKS -------------------------------------------------------------------
    # read as a must-dataflow on the normalised function (private helpers inlined): both checks
    # have been passed on EVERY path that reaches `_store_blocks(...)` or a `return` — a base
    # template (no extends tag) included.  Variable names are taken from the code.
    from ..flow import MustFlow as _MF
    from ..guards import canon as _canon
    from ..normalize import nfunc as _nfunc

    sb = _nfunc(repo, repo.func(f"{M}._stack_blocks"), keep=("_store_blocks", "_find_inheritance_nodes"))
    res.ob(sb.qual, 3)
    pairv = None
    for st in ast.walk(sb.node):
        if isinstance(st, ast.Assign) and isinstance(st.targets[0], ast.Tuple) and len(st.targets[0].elts) == 2 and isinstance(st.value, ast.Call) and callee_name(st.value) == "_find_inheritance_nodes":
            pairv = tuple(e.id for e in st.targets[0].elts if isinstance(e, ast.Name))
    if pairv is None or len(pairv) != 2:
        raise AnchorMissing("_stack_blocks: `extends, blocks = _find_inheritance_nodes(...)` not found")
    ext_v, blk_v = pairv

    def raises_tie(body) -> bool:
        return bool(body) and isinstance(body[-1], ast.Raise) and "TemplateInheritanceError" in text(body[-1])

    many = {_canon(ast.parse(f"len({ext_v}) > 1", mode="eval").body), _canon(ast.parse(f"len({ext_v}) >= 2", mode="eval").body)}

    def is_dup_loop(st) -> bool:
        """for b in <blocks>: if b.name in S: raise TemplateInheritanceError ...; S.add(b.name)"""
        if not (isinstance(st, ast.For) and is_name(st.iter, blk_v) and isinstance(st.target, ast.Name)):
            return False
        b = st.target.id
        sets = set()
        for n in ast.walk(st):
            if isinstance(n, ast.If) and isinstance(n.test, ast.Compare) and len(n.test.ops) == 1 and isinstance(n.test.ops[0], ast.In) and text(n.test.left) == f"{b}.name" and isinstance(n.test.comparators[0], ast.Name) and raises_tie(n.body):
                sets.add(n.test.comparators[0].id)
        for c in calls(st):
            if callee_name(c) == "add" and isinstance(c.func, ast.Attribute) and isinstance(c.func.value, ast.Name) and c.func.value.id in sets and c.args and text(c.args[0]) == f"{b}.name":
                return True
        return False

    class _Checks(_MF):
        def stmt(self, st_node, st):
            if isinstance(st_node, ast.If) and _canon(st_node.test) in many and raises_tie(st_node.body) and not st_node.orelse:
                # falls through only with at most one extends tag
                self.visit(st_node.test, st)
                return frozenset(st | {"single-extends"})
            out = super().stmt(st_node, st)
            if out is not None and is_dup_loop(st_node):
                out = frozenset(out | {"no-duplicates"})
            return out

    sites: list = []

    def visit2(node, st):
        if isinstance(node, ast.Return):
            sites.append(("return", node, st))
        for c in [node] + list(walk_no_nested(node)) if isinstance(node, ast.stmt) and not isinstance(node, (ast.For, ast.While, ast.If, ast.With, ast.Try)) else []:
            if isinstance(c, ast.Call) and callee_name(c) == "_store_blocks":
                sites.append(("store", c, st))

    def gen_cond3(test, truth):
        # `if not extends:` — no extends tag at all is certainly not more than one
        t, want = test, truth
        while isinstance(t, ast.UnaryOp) and isinstance(t.op, ast.Not):
            t, want = t.operand, not want
        if is_name(t, ext_v) and not want:
            return {"single-extends"}
        if _canon(t) in many and not want:
            return {"single-extends"}
        return set()

    _Checks(visit=visit2, gen_cond=gen_cond3).run(sb.node)
    if not any(k == "store" for k, _n, _s in sites):
        res.add("C18-CHECKS", sb.qual, "store", "_stack_blocks must record the blocks with _store_blocks", sb.file, sb.line)
    missing = {"single-extends": [], "no-duplicates": []}
    for kind, node, st in sites:
        for fact in missing:
            if fact not in st:
                missing[fact].append((kind, node))
    if missing["single-extends"]:
        kind, node = missing["single-extends"][0]
        res.add("C18-CHECKS", sb.qual, "too-many-extends", f"_stack_blocks reaches `{text(node)[:50]}` on a path that has not rejected a template with more than one extends tag (TemplateInheritanceError)", sb.file, node.lineno)
    if missing["no-duplicates"]:
        kind, node = missing["no-duplicates"][0]
        res.add("C18-CHECKS", sb.qual, "duplicate-block", f"_stack_blocks reaches `{text(node)[:50]}` on a path that has not rejected duplicate block names (TemplateInheritanceError) — e.g. for a base template, the last one of the chain", sb.file, node.lineno)
    from ..normalize import nfunc as _nfunc18

    bt = _nfunc18(repo, repo.own_method(f"{M}.BlockTag", "parse"), keep=("parse_name",))  # private helpers of the tag inlined
    res.ob(bt.qual)
    # `if <end name> != <block name>: raise TemplateInheritanceError` — both sides are locals bound
    # from parse_name(...) (whatever they are called), or the comparison is written the other way
    pn = {}
    for n in ast.walk(bt.node):
        if isinstance(n, ast.Assign) and len(n.targets) == 1 and isinstance(n.targets[0], ast.Name):
            pn.setdefault(n.targets[0].id, []).append(n.value)
    from_parse_name = {k for k, vs in pn.items() if all(isinstance(v, ast.Call) and callee_name(v) == "parse_name" for v in vs)}
    ok = any(
        isinstance(n, ast.If)
        and isinstance(n.test, ast.Compare)
        and len(n.test.ops) == 1
        and isinstance(n.test.ops[0], ast.NotEq)
        and isinstance(n.test.left, ast.Name)
        and isinstance(n.test.comparators[0], ast.Name)
        and {n.test.left.id, n.test.comparators[0].id} <= from_parse_name
        and n.test.left.id != n.test.comparators[0].id
        and isinstance(n.body[-1], ast.Raise)
        and "TemplateInheritanceError" in text(n.body[-1])
        for n in ast.walk(bt.node)
    )
    if not ok:
        res.add("C18-CHECKS", bt.qual, "endblock-name", "BlockTag.parse must reject an endblock whose name differs from the block's name", bt.file, bt.line)

    # ---- C18-SELECT ---------------------------------------------------------------------
    # (AST predicates on the normalised functions — private helpers such as a shared
    #  `_most_derived()` are inlined first — not text fragments; variable names are free)
    from ..guards import canon as _canon
    from ..guards import conditions as _conditions
    from ..guards import exits as _exits
    from ..normalize import nfunc as _nfunc

    st_ = _nfunc(repo, repo.func(f"{M}._store_blocks"), aliases=False)
    res.ob(st_.qual, 3)
    loops_ = [n for n in walk_no_nested(st_.node) if isinstance(n, ast.For)]
    lp_ = loops_[0] if loops_ else None
    stack_var = blk_var = None
    if lp_ is not None and isinstance(lp_.target, ast.Name):
        blk_var = lp_.target.id
        for x in ast.walk(lp_):
            if isinstance(x, ast.Assign) and len(x.targets) == 1 and isinstance(x.targets[0], ast.Name) and isinstance(x.value, ast.Subscript) and text(x.value.slice) == f"{blk_var}.name":
                stack_var = x.targets[0].id
    if stack_var is None:
        res.add("C18-SELECT", st_.qual, "by-name", "_store_blocks must keep one stack per block name (stack = block_stacks[block.name])", st_.file, st_.line)
    else:
        appends = [c for c in ast.walk(lp_) if isinstance(c, ast.Call) and callee_name(c) == "append" and is_name(call_recv(c), stack_var)]
        from ..astutil import resolve_local, single_assignments

        la = single_assignments(lp_)
        item_expr = appends[0].args[0] if appends and appends[0].args else None
        item_name = item_expr.id if isinstance(item_expr, ast.Name) else None
        # the previous top of the stack gets the new definition as its parent — when there is a
        # previous top.  Either order: append first, then `if len(S) > 1: S[-2].parent = S[-1]`;
        # or `if S: S[-1].parent = <item>` first, then `S.append(<item>)`.
        def pos_of(node_):
            for i_, st0 in enumerate(lp_.body):
                if any(x is node_ for x in ast.walk(st0)):
                    return i_
            return -1

        S = stack_var
        after_ok = any(
            isinstance(x, ast.If) and _canon(x.test) in (_canon(ast.parse(f"len({S}) > 1", mode="eval").body), _canon(ast.parse(f"len({S}) >= 2", mode="eval").body))
            and any(isinstance(y, ast.Assign) and text(y.targets[0]) == f"{S}[-2].parent" and text(y.value) == f"{S}[-1]" for y in ast.walk(x))
            and appends and pos_of(appends[0]) < pos_of(x)
            for x in ast.walk(lp_)
        )
        before_ok = item_name is not None and any(
            isinstance(x, ast.If) and _canon(x.test) in (_canon(ast.parse(S, mode="eval").body), _canon(ast.parse(f"len({S}) > 0", mode="eval").body), _canon(ast.parse(f"len({S}) >= 1", mode="eval").body))
            and any(isinstance(y, ast.Assign) and text(y.targets[0]) == f"{S}[-1].parent" and is_name(y.value, item_name) for y in ast.walk(x))
            and appends and pos_of(x) < pos_of(appends[0])
            for x in ast.walk(lp_)
        )
        if len(appends) != 1 or not (after_ok or before_ok):
            res.add("C18-SELECT", st_.qual, "link", "_store_blocks must append the definition and make it the parent of the previous top of the stack (stack[-2].parent = stack[-1])", st_.file, st_.line)
        item = resolve_local(item_expr, la) if item_expr is not None else None
        kw = {k.arg: k.value for k in item.keywords} if isinstance(item, ast.Call) else {}
        rq = resolve_local(kw.get("required"), la) if kw.get("required") is not None else None
        rq_ok = rq is not None and (
            text(rq) == f"{blk_var}.required"
            or (isinstance(rq, ast.IfExp) and isinstance(rq.body, ast.Constant) and rq.body.value is False and text(rq.orelse) == f"{blk_var}.required" and _canon(rq.test) in (f"{stack_var} and (not {blk_var}.required)", f"{stack_var} and not {blk_var}.required"))
        )
        rq_kw = kw.get("required")
        if not rq_ok and isinstance(rq_kw, ast.Name):
            # the same conditional written as statements: `<name> = False` only under
            # `stack and not block.required`, `<name> = block.required` otherwise
            from ..guards import conditions as _conds_rq

            ba = [(y, {_canon(c) for c in cs_}) for y, cs_ in _conds_rq(st_.node) if isinstance(y, ast.Assign) and len(y.targets) == 1 and is_name(y.targets[0], rq_kw.id)]
            rq_ok = (
                len(ba) >= 1
                and any(text(y.value) == f"{blk_var}.required" for y, _ in ba)
                and all(text(y.value) == f"{blk_var}.required" or (isinstance(y.value, ast.Constant) and y.value.value is False and {stack_var, f"not {blk_var}.required"} <= cc_) for y, cc_ in ba)
            )
        if not rq_ok:
            res.add("C18-REQUIRED", st_.qual, "required-carry", "the stack item must carry block.required (a non-required definition below a more derived one may clear it; nothing else)", st_.file, st_.line)
        if not (kw.get("block") is not None and is_name(kw["block"], blk_var) and kw.get("source_name") is not None and is_name(kw["source_name"], "source_name")):
            res.add("C18-SELECT", st_.qual, "item", "_store_blocks must record block, required and source_name on the stack item", st_.file, st_.line)
    for m, rd in (("render_to_output", "render"), ("render_to_output_async", "render_async")):
        f = _nfunc(repo, repo.own_method(f"{M}.BlockNode", m), aliases=False)
        res.ob(f.qual, 4)
        # the stack is looked up under the node's own name ...
        stack_vars = set()
        for x in ast.walk(f.node):
            tgt, val = (x.targets[0], x.value) if isinstance(x, ast.Assign) and len(x.targets) == 1 else (x.target, x.value) if isinstance(x, ast.AnnAssign) else (None, None)
            if isinstance(tgt, ast.Name) and isinstance(val, ast.Call) and callee_name(val) == "get" and val.args and text(val.args[0]) == "self.name":
                stack_vars.add(tgt.id)
        if not stack_vars:
            res.add("C18-SELECT", f.qual, "by-name", f"{f.qual} must look its stack up by its own name", f.file, f.line)
        # ... its first element is the selected definition ...
        item_vars = set()
        for x in ast.walk(f.node):
            if isinstance(x, ast.Assign) and len(x.targets) == 1 and isinstance(x.targets[0], ast.Name) and isinstance(x.value, ast.Subscript) and isinstance(x.value.value, ast.Name) and x.value.value.id in stack_vars:
                if text(x.value.slice) == "0":
                    item_vars.add(x.targets[0].id)
                else:
                    res.add("C18-SELECT", f.qual, "top-of-stack", f"{f.qual} selects `{text(x.value)}`; block_stack[0] is the most derived definition", f.file, x.lineno)
        # names that are plain copies of the item (an inlined helper hands it over that way)
        for _ in range(3):
            for x in ast.walk(f.node):
                if isinstance(x, ast.Assign) and len(x.targets) == 1 and isinstance(x.targets[0], ast.Name) and isinstance(x.value, ast.Name) and x.value.id in item_vars:
                    item_vars.add(x.targets[0].id)
        if not item_vars:
            res.add("C18-SELECT", f.qual, "top-of-stack", f"{f.qual} must render block_stack[0], the most derived definition", f.file, f.line)
        # ... and rendered on a block-scoped copy of the context, with block.super = its parent
        sel_renders = [c for c in calls(f.node) if callee_name(c) == rd and (ch := attr_chain(call_recv(c))) and len(ch) == 3 and ch[0] in item_vars and ch[1:] == ["block", "block"]]
        copies = {x.targets[0].id for x in ast.walk(f.node) if isinstance(x, ast.Assign) and len(x.targets) == 1 and isinstance(x.targets[0], ast.Name) and isinstance(x.value, ast.Call) and callee_name(x.value) == "copy" and any(k.arg == "block_scope" and isinstance(k.value, ast.Constant) and k.value.value is True for k in x.value.keywords)}
        if not sel_renders or not all(c.args and isinstance(c.args[0], ast.Name) and c.args[0].id in copies for c in sel_renders):
            res.add("C18-SELECT", f.qual, "render-selected", f"{f.qual} must render the selected definition's block on the block-scoped copy", f.file, f.line)
        drops = [c for c in calls(f.node) if callee_name(c) == "BlockDrop"]
        if not any((pv := next((k.value for k in c.keywords if k.arg == "parent"), None)) is not None and (ch := attr_chain(pv)) and len(ch) == 2 and ch[0] in item_vars and ch[1] == "parent" for c in drops):
            res.add("C18-SELECT", f.qual, "super-parent", f"{f.qual}: the block drop's parent must be the selected item's parent", f.file, f.line)
        # REQUIRED: raised under self.required on the direct path and under <item>.required on the
        # stacked path; every render of a block happens where the matching flag is false
        rq_raises = [e for e in _exits(f.node, resolve_locals=False) if e.kind == "raise" and e.raised() == "RequiredBlockError"]
        conds_sets = [set(e.canon) for e in rq_raises]
        direct = any("self.required" in cs for cs in conds_sets)
        stacked = any(any(c == f"{iv}.required" for iv in item_vars) for cs in conds_sets for c in cs)
        if len(rq_raises) != 2 or not direct or not stacked:
            res.add("C18-REQUIRED", f.qual, f"raises:{len(rq_raises)}", f"{f.qual} must raise RequiredBlockError on the direct path (self.required) and on the stacked path (stack_item.required)", f.file, f.line)
        cond_of = {id(st): [_canon(c) for c in cs] for st, cs in _conditions(f.node)}
        for st, _cs in _conditions(f.node):
            if hasattr(st, "body"):
                continue
            for c in calls(st):
                if callee_name(c) != rd:
                    continue
                cs = cond_of.get(id(st), [])
                ch = attr_chain(call_recv(c)) or []
                want = [f"not {iv}.required" for iv in item_vars] if ch and ch[0] in item_vars else ["not self.required"]
                if not any(w in cs for w in want):
                    res.add("C18-REQUIRED", f.qual, "order", f"{f.qual}: `{text(c)[:50]}` can run without the required check having passed", f.file, c.lineno)
    bd = repo.own_method(f"{M}.BlockDrop", "__getitem__")
    res.ob(bd.qual, 2)
    from ..astutil import local_names as _local_names
    from ..astutil import ltext as _ltext

    t = _ltext(bd.node, _local_names(bd.node))  # local names written `_`
    if "self.parent.block.block.render(self.context, _)" not in t or "parent=self.parent.parent" not in t:
        res.add("C18-SELECT", bd.qual, "super-one-step", "block.super must render the next definition up (self.parent.block) with parent=self.parent.parent", bd.file, bd.line)
    if "if not self.parent" not in t:
        res.add("C18-SELECT", bd.qual, "no-parent", "block.super without a parent must be undefined", bd.file, bd.line)
    # ---- C18-SCOPE: the winning definition is rendered *in place* of the root's block ---------------
    # A block's definition runs on ``context.copy(..., block_scope=True)``.  "In place" means it reads
    # what the root's block would read at that spot: everything on the caller's live scope chain
    # (enclosing ``for`` variables, ``forloop``, names pushed by enclosing blocks), shadowed only by
    # the block's own locals and namespace.  So, under ``block_scope``, the new context's scope is a
    # chain that contains ``self.scope`` itself — not ``self.locals`` / ``self.globals``, which lack
    # the pushed namespaces — after the new context's locals and the block namespace.
    from ..guards import canon as _canon18
    from ..guards import conditions as _conds18

    cp = repo.own_method("liquid.context.RenderContext", "copy")
    res.ob(cp.qual, 2)
    ps18 = [p for p in cp.params() if p != "self"]
    if "block_scope" not in ps18:
        raise AnchorMissing("RenderContext.copy no longer has a block_scope parameter")
    p_ns = ps18[0]
    n_scope = 0
    for st18, cs18 in _conds18(cp.node):
        if isinstance(st18, ast.Assign) and len(st18.targets) == 1 and isinstance(st18.targets[0], ast.Attribute) and st18.targets[0].attr == "scope" and isinstance(st18.targets[0].value, ast.Name):
            if "block_scope" not in {_canon18(c) for c in cs18}:
                continue
            n_scope += 1
            new_ctx = st18.targets[0].value.id
            v = st18.value
            args18 = [text(a) for a in v.args] if isinstance(v, ast.Call) and callee_name(v) == "ReadOnlyChainMap" else []
            want_before = [f"{new_ctx}.locals", p_ns]
            if "self.scope" not in args18:
                res.add("C18-SCOPE", cp.qual, "live-scope-missing", f"{cp.qual}: under block_scope the new context's scope is `{text(v)[:90]}`, which does not chain to `self.scope`: names pushed on the caller's scope (an enclosing for loop's variable and forloop, an enclosing block's namespace) are invisible to the winning block definition, so it does not render as the root's block would in that place", cp.file, st18.lineno)
            elif any(w not in args18 or args18.index(w) > args18.index("self.scope") for w in want_before):
                res.add("C18-SCOPE", cp.qual, "shadow-order", f"{cp.qual}: under block_scope the scope chain `{text(v)[:90]}` must list the new context's locals and the block namespace before `self.scope` (they shadow the enclosing names)", cp.file, st18.lineno)
    if n_scope != 1:
        raise AnchorMissing(f"RenderContext.copy: expected one `<new context>.scope = ...` under block_scope, found {n_scope}")
    return res


def selftest(repo: Repo):
    from ..selftest import Variant, text_edit

    def v(name, rel, old, new, expect, count=1):
        return lambda: Variant(name, text_edit(repo, rel, old, new, count), expect)

    P = "liquid/extra/tags/extends_tag.py"
    from ..selftest import ast_edit

    def drop(pred, which_fn, expect, name):
        def make():
            def edit(tree):
                done = False
                for fn in ast.walk(tree):
                    if isinstance(fn, (ast.FunctionDef, ast.AsyncFunctionDef)) and fn.name == which_fn:
                        for parent in ast.walk(fn):
                            for fld in ("body", "orelse"):
                                seq = getattr(parent, fld, None)
                                if isinstance(seq, list):
                                    for k, st in enumerate(seq):
                                        if pred(st) and not done:
                                            seq[k] = ast.Pass()
                                            done = True
                return done
            return Variant(name, ast_edit(repo, P, edit), expect)
        return make

    extra = [
        drop(lambda st: isinstance(st, ast.If) and "in seen" in text(st.test), "_build_block_stacks", "C18-CYCLE", "seen-test-dropped-sync"),
        drop(lambda st: isinstance(st, ast.Expr) and "seen.add(" in text(st), "_build_block_stacks_async", "C18-CYCLE", "seen-not-recorded-async"),
        drop(lambda st: isinstance(st, ast.If) and text(st.test) == "stack_item.required", "render_to_output", "C18-REQUIRED", "required-not-enforced-stacked"),
        drop(lambda st: isinstance(st, ast.If) and text(st.test) == "self.required", "render_to_output_async", "C18-REQUIRED", "required-not-enforced-direct"),
    ]
    return extra + [
        v("no-stoprender", P, "        base_template.render_with_context(context, buffer)\n        context.tag_namespace[\"extends\"].clear()\n        raise StopRender", "        base_template.render_with_context(context, buffer)\n        context.tag_namespace[\"extends\"].clear()\n        return 0", "C18-STOP"),
        v("stoprender-conditional", P, "        await base_template.render_with_context_async(context, buffer)\n        context.tag_namespace[\"extends\"].clear()\n        raise StopRender", "        await base_template.render_with_context_async(context, buffer)\n        context.tag_namespace[\"extends\"].clear()\n        if base_template.nodes:\n            raise StopRender\n        return 0", "C18-STOP"),
        v("stoprender-continues", "liquid/template.py", "                except StopRender:\n                    break", "                except StopRender:\n                    continue", "C18-STOP", count=2),
        v("duplicate-blocks-allowed", P, "        if block.name in seen_block_names:\n            raise TemplateInheritanceError(\n                f\"duplicate block {block.name}\",\n                token=block.token,\n            )\n", "", "C18-CHECKS"),
        v("many-extends-allowed", P, "    if len(extends) > 1:\n        raise TemplateInheritanceError(\n            \"too many 'extends' tags\",\n            token=extends[1].token,\n            template_name=template_name,\n        )\n", "", "C18-CHECKS"),
        v("endblock-name-ignored", P, "                if end_block_name != block_name:", "                if False:", "C18-CHECKS"),
        v("least-derived-wins", P, "        stack_item = block_stack[0]", "        stack_item = block_stack[-1]", "C18-SELECT", count=2),
        v("super-skips-a-level", P, "                    parent=self.parent.parent,", "                    parent=None,", "C18-SELECT"),
        v("links-wrong-direction", P, "            stack[-2].parent = stack[-1]", "            stack[-1].parent = stack[-2]", "C18-SELECT"),
        v("required-always-cleared", P, "        required = False if stack and not block.required else block.required", "        required = False if stack else block.required", "C18-REQUIRED"),
    ]
