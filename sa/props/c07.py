"""C07 — output and local-namespace limits bound what they measure (clauses).

  C07-COUNT   ``LimitedStringIO.write`` adds ``len(<arg>.encode("utf-8"))`` of exactly the
              string it is about to write, and on every path the ``size > limit`` raise is
              reached before ``super().write`` (bytes are counted before they are written).
  C07-BUFFER  a text buffer is constructed only by ``BoundTemplate._get_buffer`` and
              ``RenderContext.get_buffer`` (``NullIO`` discards and is exempt);
              ``get_buffer`` gives the child ``output_stream_limit - <bytes already in the
              parent LimitedStringIO>``; every ``get_buffer(...)`` call in a tag passes the
              buffer it is currently rendering into.
  C07-TOP     ``render``/``render_async`` write into the buffer from ``_get_buffer`` and return
              its ``getvalue()``.
  C07-LOCALS  ``locals[...]`` is stored only in ``RenderContext.assign`` and the limit test
              (``get_size_of_locals() > local_namespace_limit`` -> raise) follows the store;
              ``get_size_of_locals`` adds ``local_namespace_size_carry``; every context
              constructed by ``copy`` receives ``local_namespace_size_carry=
              self.get_size_of_locals()``.
Not decided: that sys.getsizeof is a meaningful measure (the property says "measured size").
"""

from __future__ import annotations

import ast

from ..astutil import call_recv, attr_chain, callee_name, calls, is_name, is_self_attr, text
from ..core import Result
from ..flow import MustFlow, node_calls
from ..model import AnchorMissing, Repo, walk_no_nested

PID = "C07"
MIN_OBLIGATIONS = 14
BUFFER_CTORS = {"StringIO", "LimitedStringIO"}
BUFFER_OWNERS = {
    "liquid.template.BoundTemplate._get_buffer",
    "liquid.context.RenderContext.get_buffer",
}


def run(repo: Repo) -> Result:
    res = Result(PID)
    res.rules = ["C07-COUNT", "C07-BUFFER", "C07-TOP", "C07-LOCALS"]
    res.explanation = "counted-before-written flow rule + one-constructor-per-resource who-may rules"
    res.assumptions = ["sys.getsizeof is the property's own measure of namespace size"]

    # ---- C07-COUNT -----------------------------------------------------------
    w = repo.own_method("liquid.output.LimitedStringIO", "write")
    res.ob(w.qual, 3)
    a = w.node.args
    pos = [x.arg for x in a.posonlyargs + a.args]
    if len(pos) != 2:
        res.add("C07-COUNT", w.qual, "signature", "write(self, s) expected", w.file, w.line)
    sparam = pos[1] if len(pos) > 1 else "_"
    # size increment
    inc_ok = False
    from ..guards import conditions as _condsW

    ascii_only = {id(st0) for st0, cs0 in _condsW(w.node) if any(isinstance(c0, ast.Call) and callee_name(c0) == "isascii" and is_name(call_recv(c0), sparam) for c0 in cs0)}
    for st in walk_no_nested(w.node):
        if isinstance(st, ast.AugAssign) and isinstance(st.op, ast.Add) and attr_chain(st.target) == ["self", "size"]:
            v = st.value
            if id(st) in ascii_only and isinstance(v, ast.Call) and is_name(v.func, "len") and len(v.args) == 1 and is_name(v.args[0], sparam):
                continue  # under `s.isascii()` the character count IS the UTF-8 byte count
            if (
                isinstance(v, ast.Call)
                and is_name(v.func, "len")
                and len(v.args) == 1
                and isinstance(v.args[0], ast.Call)
                and isinstance(v.args[0].func, ast.Attribute)
                and v.args[0].func.attr == "encode"
                and is_name(call_recv(v.args[0]), sparam)
                and (
                    (v.args[0].args and isinstance(v.args[0].args[0], ast.Constant) and str(v.args[0].args[0].value).lower().replace("-", "") == "utf8")
                    or not v.args[0].args and not v.args[0].keywords
                )
            ):
                inc_ok = True
            else:
                res.add("C07-COUNT", w.qual, f"increment:{text(v)[:40]}", f"size must grow by len({sparam}.encode('utf-8')), found `{text(v)}`", w.file, st.lineno)
    if not inc_ok:
        res.add("C07-COUNT", w.qual, "no-utf8-increment", "LimitedStringIO.write does not count the UTF-8 bytes of its argument", w.file, w.line)

    # flow: counted & checked before super().write on every path where s is non-empty
    facts_at_write = []

    def gen(st):
        out = set()
        if isinstance(st, ast.AugAssign) and attr_chain(st.target) == ["self", "size"]:
            out.add("counted")
        return out

    def gen_cond(test, truth):
        out = set()
        if isinstance(test, ast.Compare) and attr_chain(test.left) == ["self", "size"] and isinstance(test.ops[0], ast.Gt) and not truth:
            out.update(("checked", "ok"))
        if is_name(test, sparam) and not truth:
            out.add("ok")  # nothing to write: zero bytes
        return out

    def visit(node, st):
        if isinstance(node, ast.Compare) and attr_chain(node.left) == ["self", "size"] and "counted" not in st:
            res.add("C07-COUNT", w.qual, "check-before-count", "the size > limit test runs before the bytes of this write were added", w.file, node.lineno)
        for c in node_calls(node):
            if callee_name(c) == "write" and isinstance(call_recv(c), ast.Call) and callee_name(call_recv(c)) == "super":
                facts_at_write.append((c, st))

    MustFlow(gen=gen, gen_cond=gen_cond, visit=visit).run(w.node)
    if not facts_at_write:
        res.add("C07-COUNT", w.qual, "no-super-write", "LimitedStringIO.write never writes", w.file, w.line)
    for c, st in facts_at_write:
        if "ok" not in st:
            res.add("C07-COUNT", w.qual, "write-before-check", f"super().write is reachable without the bytes having been counted and checked (facts: {sorted(st)})", w.file, c.lineno)
        wa = c.args[0] if c.args else None
        if not is_name(wa, sparam):
            res.add("C07-COUNT", w.qual, "writes-other", f"writes `{text(wa) if wa is not None else None}`, not the counted string", w.file, c.lineno)

    # ---- C07-BUFFER ------------------------------------------------------------
    n_ctor = 0
    for f in repo.all_functions():
        for c in calls(f.node, nested=True):
            if callee_name(c) in BUFFER_CTORS and not isinstance(c.func, ast.Attribute) or (
                isinstance(c.func, ast.Attribute) and c.func.attr in BUFFER_CTORS and text(call_recv(c)) == "io"
            ):
                if f.qual.startswith("liquid.output."):
                    continue
                n_ctor += 1
                res.ob(f"{f.qual}:{callee_name(c)}")
                if f.qual not in BUFFER_OWNERS:
                    res.add("C07-BUFFER", f.qual, f"ctor:{callee_name(c)}", f"{f.qual} constructs a {callee_name(c)} itself: output written there escapes the stream limit", f.file, c.lineno)
    if n_ctor < 4:
        raise AnchorMissing(f"expected 4 buffer constructions in the two owners, found {n_ctor}")
    from ..normalize import nfunc

    # (helpers inlined, `limit = self.env.output_stream_limit`-style aliases propagated)
    gb = nfunc(repo, repo.own_method("liquid.context.RenderContext", "get_buffer"))
    res.ob(gb.qual, 2)
    lim_calls = [c for c in calls(gb.node) if callee_name(c) == "LimitedStringIO"]
    bparam = [p for p in gb.params() if p != "self"][0]
    # path conditions: a limited child buffer gets `output_stream_limit - <parent>.size` wherever
    # the parent is a LimitedStringIO (an unlimited parent has nothing to carry) — as one
    # conditional expression or as two constructions under the isinstance test and its negation
    from ..guards import canon as _canon7
    from ..guards import conditions as _conds7
    from ..guards import inner_conditions as _inner7

    assigns = {t.id: st.value for st in walk_no_nested(gb.node) if isinstance(st, ast.Assign) for t in st.targets if isinstance(t, ast.Name)}
    is_lim = _canon7(ast.parse(f"isinstance({bparam}, LimitedStringIO)", mode="eval").body)
    not_lim = _canon7(ast.parse(f"not isinstance({bparam}, LimitedStringIO)", mode="eval").body)
    LIMIT_CHAIN = ["self", "env", "output_stream_limit"]
    ok = bool(lim_calls)
    carried = False
    for st7, cs7 in _conds7(gb.node):
        if isinstance(st7, (ast.If, ast.For, ast.While, ast.With, ast.Try)):
            continue
        cc7 = {_canon7(c) for c in cs7}
        for c in [x for x in ast.walk(st7) if isinstance(x, ast.Call) and callee_name(x) == "LimitedStringIO"]:
            kw = {k.arg: k.value for k in c.keywords}
            v = kw.get("limit") or (c.args[0] if c.args else None)
            if isinstance(v, ast.BinOp) and isinstance(v.op, ast.Sub) and attr_chain(v.left) == LIMIT_CHAIN:
                carry = v.right
                if isinstance(carry, ast.Name) and carry.id in assigns:
                    carry = assigns[carry.id]
                carry_name = v.right.id if isinstance(v.right, ast.Name) else None
                branch_assigns = [(st_, {_canon7(c_) for c_ in cs_}) for st_, cs_ in _conds7(gb.node) if isinstance(st_, ast.Assign) and len(st_.targets) == 1 and is_name(st_.targets[0], carry_name)] if carry_name else []
                if isinstance(carry, ast.IfExp) and attr_chain(carry.body) == [bparam, "size"] and _canon7(carry.test) == is_lim and isinstance(carry.orelse, ast.Constant) and carry.orelse.value == 0:
                    carried = True
                elif len(branch_assigns) >= 2 and all((attr_chain(st_.value) == [bparam, "size"] and is_lim in cc_) or (isinstance(st_.value, ast.Constant) and st_.value.value == 0 and not_lim in cc_) for st_, cc_ in branch_assigns) and any(attr_chain(st_.value) == [bparam, "size"] for st_, _ in branch_assigns):
                    # the same conditional written as a statement: the parent's size under the
                    # isinstance test, 0 under its negation
                    carried = True
                elif attr_chain(carry) == [bparam, "size"] and is_lim in cc7:
                    carried = True
                else:
                    ok = False
            elif v is not None and attr_chain(v) == LIMIT_CHAIN:
                if not_lim not in cc7:
                    ok = False  # no carry although the parent may be limited
            else:
                ok = False
    ok = ok and carried
    if not ok:
        res.add("C07-BUFFER", gb.qual, "carry", "get_buffer must give the child buffer `output_stream_limit - parent.size` (0 only when the parent is unlimited)", gb.file, gb.line)
    # an unlimited buffer exactly when no limit is configured: in both owners every plain
    # ``StringIO()`` is constructed under ``output_stream_limit is None`` and every limited one
    # under its negation.  (A truthiness test would make a limit of 0 mean "unlimited".)
    is_none = _canon7(ast.parse("self.env.output_stream_limit is None", mode="eval").body)
    not_none = _canon7(ast.parse("self.env.output_stream_limit is not None", mode="eval").body)
    for owner in sorted(BUFFER_OWNERS):
        cq, mn = owner.rsplit(".", 1)
        of = nfunc(repo, repo.own_method(cq, mn))
        res.ob(f"{owner}:unlimited-iff-none", 2)
        n_plain = n_lim = 0
        for st7, cs7 in _conds7(of.node):
            if isinstance(st7, (ast.If, ast.For, ast.While, ast.With, ast.Try)):
                continue
            inner = _inner7(st7)
            for c in [x for x in ast.walk(st7) if isinstance(x, ast.Call)]:
                cc7 = {_canon7(k) for k in list(cs7) + inner.get(id(c), [])}
                if callee_name(c) == "StringIO":
                    n_plain += 1
                    if is_none not in cc7:
                        res.add("C07-BUFFER", owner, "unlimited-without-none-test", f"{owner} constructs an unlimited StringIO where `output_stream_limit is None` is not known to hold (path conditions: {sorted(text(k) for k in cs7)}): with a limit of 0 — or whatever else that test lets through — the render is not limited at all", of.file, c.lineno)
                elif callee_name(c) == "LimitedStringIO":
                    n_lim += 1
                    if not_none not in cc7:
                        res.add("C07-BUFFER", owner, "limited-without-limit", f"{owner} constructs a LimitedStringIO where the limit may be None", of.file, c.lineno)
        if not n_plain or not n_lim:
            raise AnchorMissing(f"{owner}: expected one unlimited and one limited buffer construction")
    # call sites of get_buffer
    n_sites = 0
    for f in repo.all_functions():
        if f.qual == gb.qual:
            continue
        for c in calls(f.node, nested=True):
            if callee_name(c) == "get_buffer" and isinstance(c.func, ast.Attribute):
                n_sites += 1
                res.ob(f"{f.qual}:get_buffer")
                arg = c.args[0] if c.args else next((k.value for k in c.keywords if k.arg == "buf"), None)
                params = set(f.params())
                good = False
                if isinstance(arg, ast.Name) and arg.id in params and arg.id in ("buffer", "buf", "_buffer"):
                    good = True
                elif arg is not None and attr_chain(arg) == ["self", "buffer"]:
                    good = True  # BlockDrop keeps the buffer it was created with
                if not good:
                    res.add("C07-BUFFER", f.qual, "get_buffer-arg", f"{f.qual}: get_buffer({text(arg) if arg is not None else ''}) must receive the buffer currently rendered into, so its bytes are carried", f.file, c.lineno)
                res.sample({"rule": "C07-BUFFER", "site": f.qual, "call": text(c)})
    if n_sites < 5:
        raise AnchorMissing(f"expected >= 5 get_buffer call sites, found {n_sites}")

    # ---- C07-TOP ---------------------------------------------------------------
    for m, rw in (("render", "render_with_context"), ("render_async", "render_with_context_async")):
        f = repo.own_method("liquid.template.BoundTemplate", m)
        res.ob(f.qual)
        bufvars = {t.id for st in walk_no_nested(f.node) if isinstance(st, ast.Assign) and isinstance(st.value, ast.Call) and callee_name(st.value) == "_get_buffer" for t in st.targets if isinstance(t, ast.Name)}
        rcalls = [c for c in calls(f.node) if callee_name(c) == rw]
        rets = [s for s in walk_no_nested(f.node) if isinstance(s, ast.Return)]
        good = (
            len(bufvars) == 1
            and len(rcalls) == 1
            and len(rcalls[0].args) >= 2
            and isinstance(rcalls[0].args[1], ast.Name)
            and rcalls[0].args[1].id in bufvars
            and len(rets) == 1
            and isinstance(rets[0].value, ast.Call)
            and callee_name(rets[0].value) == "getvalue"
            and isinstance(call_recv(rets[0].value), ast.Name)
            and call_recv(rets[0].value).id in bufvars
        )
        if not good:
            res.add("C07-TOP", f.qual, "buffer", f"{f.qual} must render into the buffer from _get_buffer() and return its getvalue()", f.file, f.line)

    # ---- C07-LOCALS ------------------------------------------------------------
    n_store = 0
    for f in repo.all_functions():
        for n in ast.walk(f.node):
            tgts = []
            if isinstance(n, ast.Assign):
                tgts = n.targets
            elif isinstance(n, (ast.AugAssign, ast.AnnAssign)):
                tgts = [n.target]
            elif isinstance(n, ast.Delete):
                tgts = n.targets
            for t in tgts:
                if isinstance(t, ast.Subscript) and isinstance(t.value, ast.Attribute) and t.value.attr == "locals":
                    n_store += 1
                    res.ob(f"{f.qual}:locals-store")
                    if f.qual != "liquid.context.RenderContext.assign":
                        res.add("C07-LOCALS", f.qual, "locals-store", f"{f.qual} writes `{text(t)}` directly, bypassing RenderContext.assign and its limit check", f.file, n.lineno)
            if isinstance(n, ast.Call) and isinstance(n.func, ast.Attribute) and n.func.attr in ("update", "setdefault", "pop", "clear", "__setitem__") and isinstance(call_recv(n), ast.Attribute) and call_recv(n).attr == "locals":
                res.ob(f"{f.qual}:locals-mutate")
                res.add("C07-LOCALS", f.qual, f"locals-{n.func.attr}", f"{f.qual} mutates locals via .{n.func.attr}() outside RenderContext.assign", f.file, n.lineno)
    if n_store < 1:
        raise AnchorMissing("RenderContext.assign no longer stores into self.locals")
    asg = nfunc(repo, repo.own_method("liquid.context.RenderContext", "assign"), keep=("get_size_of_locals",))
    res.ob(asg.qual, 2)
    state = {"guard_after_store": False}

    def gen2(st):
        if isinstance(st, ast.Assign) and any(isinstance(t, ast.Subscript) and attr_chain(t.value) == ["self", "locals"] for t in st.targets):
            return {"stored"}
        return set()

    def visit2(node, st):
        if isinstance(node, ast.expr):
            # an If test: the limit guard
            src = text(node)
            if "get_size_of_locals()" in src and "local_namespace_limit" in src and "stored" in st:
                state["guard_after_store"] = True

    MustFlow(gen=gen2, visit=visit2).run(asg.node)
    # the guard runs on *every* assignment: its only conjuncts are the limit-enabled test and
    # the measure comparison (re-binding a name can grow the namespace as much as a new name)
    for n in ast.walk(asg.node):
        if isinstance(n, ast.If) and "get_size_of_locals()" in text(n.test):
            conj = n.test.values if isinstance(n.test, ast.BoolOp) and isinstance(n.test.op, ast.And) else [n.test]
            extra = [c for c in conj if "local_namespace_limit" not in text(c)]
            if extra or isinstance(n.test, ast.BoolOp) and isinstance(n.test.op, ast.Or):
                res.add("C07-LOCALS", asg.qual, f"guard-extra-condition:{text(extra[0])[:30] if extra else 'or'}", f"assign checks the namespace limit only when `{text(extra[0]) if extra else text(n.test)}` holds: assignments that skip the check can grow the namespace past the limit", asg.file, n.lineno)
    # ... and nothing returns before it
    for n in walk_no_nested(asg.node):
        if isinstance(n, ast.Return):
            res.add("C07-LOCALS", asg.qual, "early-return", "assign returns on some path: the limit check after the store must run on every assignment", asg.file, n.lineno)
    if not state["guard_after_store"]:
        res.add("C07-LOCALS", asg.qual, "guard-after-store", "assign must test get_size_of_locals() > local_namespace_limit after storing the value", asg.file, asg.line)
    gs = repo.own_method("liquid.context.RenderContext", "get_size_of_locals")
    res.ob(gs.qual)
    rets = [s for s in walk_no_nested(gs.node) if isinstance(s, ast.Return)]
    main = [r for r in rets if not (isinstance(r.value, ast.Constant))]
    if not main or not all("self.local_namespace_size_carry" in text(r.value) and "self.locals" in text(r.value) and isinstance(r.value, ast.BinOp) and isinstance(r.value.op, ast.Add) for r in main):
        res.add("C07-LOCALS", gs.qual, "carry", "get_size_of_locals must return the size of self.locals plus local_namespace_size_carry", gs.file, gs.line)
    cp = repo.own_method("liquid.context.RenderContext", "copy")
    ctor_calls = [c for c in calls(cp.node) if text(c.func) in ("self.__class__", "RenderContext", "type(self)")]
    if not ctor_calls:
        raise AnchorMissing("RenderContext.copy constructs no context")
    for c in ctor_calls:
        res.ob(f"{cp.qual}:ctor")
        kw = {k.arg: k.value for k in c.keywords}
        v = kw.get("local_namespace_size_carry")
        if not (isinstance(v, ast.Call) and callee_name(v) == "get_size_of_locals" and is_self_attr(v.func)):
            res.add("C07-LOCALS", cp.qual, f"ctor-carry:{text(v) if v is not None else 'missing'}", "every context built by copy must receive local_namespace_size_carry=self.get_size_of_locals()", cp.file, c.lineno)
    # other constructions of a render context with a parent
    res.stats.update(buffer_ctors=n_ctor, get_buffer_sites=n_sites, locals_stores=n_store, copy_ctor_calls=len(ctor_calls))
    return res


def selftest(repo: Repo):
    from ..selftest import Variant, text_edit

    def v(name, rel, old, new, expect, count=1):
        return lambda: Variant(name, text_edit(repo, rel, old, new, count), expect)

    OUT = "liquid/output.py"
    CTX = "liquid/context.py"
    return [
        v("count-chars-not-bytes", OUT, 'self.size += len(__s.encode("utf-8"))', "self.size += len(__s)", "C07-COUNT"),
        v("write-before-check", OUT, '        if __s:\n            self.size += len(__s.encode("utf-8"))\n            if self.size > self.limit:\n                raise OutputStreamLimitError("output stream limit reached", token=None)\n        return super().write(__s)', '        n = super().write(__s)\n        if __s:\n            self.size += len(__s.encode("utf-8"))\n            if self.size > self.limit:\n                raise OutputStreamLimitError("output stream limit reached", token=None)\n        return n', "C07-COUNT"),
        v("capture-own-stringio", "liquid/builtin/tags/capture_tag.py", "        buf = context.get_buffer(buffer)\n        self.block.render(context, buf)", "        buf = StringIO()\n        self.block.render(context, buf)", "C07-BUFFER"),
        v("get_buffer-without-parent", "liquid/builtin/tags/ifchanged_tag.py", "        buf = context.get_buffer(buffer)\n        self.block.render(context, buf)", "        buf = context.get_buffer()\n        self.block.render(context, buf)", "C07-BUFFER"),
        v("no-carry", CTX, "        return LimitedStringIO(limit=self.env.output_stream_limit - carry)", "        return LimitedStringIO(limit=self.env.output_stream_limit)", "C07-BUFFER"),
        v("check-only-new-names", CTX, "        self.locals[key] = val\n        if (\n            self.env.local_namespace_limit is not None\n", "        is_new = key not in self.locals\n        self.locals[key] = val\n        if (\n            is_new\n            and self.env.local_namespace_limit is not None\n", "C07-LOCALS"),
        v("locals-store-elsewhere", "liquid/builtin/tags/assign_tag.py", "        context.assign(self.name, self.expression.evaluate(context))", "        context.locals[self.name] = self.expression.evaluate(context)", "C07-LOCALS"),
        v("check-before-store", CTX, "        self.locals[key] = val\n        if (\n            self.env.local_namespace_limit is not None\n            and self.get_size_of_locals() > self.env.local_namespace_limit\n        ):\n            raise LocalNamespaceLimitError(\"local namespace limit reached\", token=None)\n", "        if (\n            self.env.local_namespace_limit is not None\n            and self.get_size_of_locals() > self.env.local_namespace_limit\n        ):\n            raise LocalNamespaceLimitError(\"local namespace limit reached\", token=None)\n        self.locals[key] = val\n", "C07-LOCALS"),
        v("copy-drops-size-carry", CTX, "                local_namespace_size_carry=self.get_size_of_locals(),\n            )\n\n        return ctx", "                local_namespace_size_carry=0,\n            )\n\n        return ctx", "C07-LOCALS"),
        v("size-ignores-carry", CTX, "            + self.local_namespace_size_carry\n", "            + 0\n", "C07-LOCALS"),
        v("render-uses-plain-buffer", "liquid/template.py", "        buf = self._get_buffer()\n        self.render_with_context(context, buf)", "        buf = StringIO()\n        self.render_with_context(context, buf)", "C07-"),
    ]
