"""C07 — output and local-namespace limits bound what they measure (clauses).

  C07-COUNT   ``LimitedStringIO.write`` adds ``len(<arg>.encode("utf-8"))`` of exactly the
              string it is about to write, and on every path the ``size > limit`` raise is
              reached before ``super().write`` (bytes are counted before they are written).
  C07-BUFFER  a text buffer is constructed only by ``BoundTemplate._get_buffer`` and
              ``RenderContext.get_buffer`` (``NullIO`` discards and is exempt);
              ``get_buffer`` gives the child ``output_stream_limit - <bytes already in the
              parent LimitedStringIO>``; every ``get_buffer(...)`` call in a tag passes the
              buffer it is currently rendering into.
  C07-TOP     ``render``/``render_async`` write into the buffer from ``_get_buffer`` and return
              its ``getvalue()``.
  C07-LOCALS  ``locals[...]`` is stored only in ``RenderContext.assign`` and the limit test
              (``get_size_of_locals() > local_namespace_limit`` -> raise) follows the store;
              ``get_size_of_locals`` adds ``local_namespace_size_carry``; every context
              constructed by ``copy`` receives ``local_namespace_size_carry=
              self.get_size_of_locals()``.
Not decided: that sys.getsizeof is a meaningful measure (the property says "measured size").
"""

from __future__ import annotations

import ast

from ..astutil import call_recv, attr_chain, callee_name, calls, is_name, is_self_attr, text
from ..core import Result
from ..flow import MustFlow, node_calls
from ..model import AnchorMissing, Repo, walk_no_nested

PID = "C07"
MIN_OBLIGATIONS = 14
BUFFER_CTORS = {"StringIO", "LimitedStringIO"}
BUFFER_OWNERS = {
    "liquid.template.BoundTemplate._get_buffer",
    "liquid.context.RenderContext.get_buffer",
}


def limited_write_paths(repo: Repo):
    """All paths of ``LimitedStringIO.write(self, s)`` with the byte counter tracked symbolically.

    Symbols: ``S0`` the counter on entry, ``N`` the UTF-8 length of ``s`` (``len(s.encode("utf-8"))``,
    ``len(s.encode())``, or ``len(s)`` on a path where ``s.isascii()`` holds), ``L`` the limit.
    Locals stand for their definitions, private helpers are inlined.  Returns
    ``(function, s parameter, [path])`` where a path is a dict with ``kind`` ("write" = reaches
    ``super().write``, "raise", "return"), ``conds`` (set of condition strings such as ``S0+N>L``,
    ``!(S0+N>L)``, ``s``, ``!s``), ``size`` (the counter at that point) and ``node``."""
    from ..normalize import nfunc

    w0 = repo.own_method("liquid.output.LimitedStringIO", "write")
    w = nfunc(repo, w0)
    a = w.node.args
    pos = [x.arg for x in a.posonlyargs + a.args]
    sparam = pos[1] if len(pos) > 1 else "_"

    def add(x: str, y: str) -> str:
        return "+".join(sorted(x.split("+") + y.split("+")))

    def sym(e: ast.AST, env: dict, conds: set) -> str:
        if isinstance(e, ast.Name):
            if e.id == sparam:
                return "s"
            return env.get(e.id, e.id)
        if attr_chain(e) == ["self", "size"]:
            return env["@size"]
        if attr_chain(e) == ["self", "limit"]:
            return "L"
        if isinstance(e, ast.BinOp) and isinstance(e.op, ast.Add):
            return add(sym(e.left, env, conds), sym(e.right, env, conds))
        if isinstance(e, ast.Call) and is_name(e.func, "len") and len(e.args) == 1:
            x = e.args[0]
            if isinstance(x, ast.Call) and isinstance(x.func, ast.Attribute) and x.func.attr == "encode" and is_name(call_recv(x), sparam) and not x.keywords and (not x.args or (isinstance(x.args[0], ast.Constant) and str(x.args[0].value).lower().replace("-", "") == "utf8")):
                return "N"
            if is_name(x, sparam) and "ascii" in conds:
                return "N"  # for ASCII text the character count is the UTF-8 byte count
        if isinstance(e, ast.Constant):
            return repr(e.value)
        return "?" + text(e)

    def cond(t: ast.AST, env: dict, conds: set) -> str:
        if isinstance(t, ast.UnaryOp) and isinstance(t.op, ast.Not):
            c = cond(t.operand, env, conds)
            return c[1:] if c.startswith("!") and not c.startswith("!(") else f"!{c}" if not c.startswith("!(") else c[2:-1]
        if isinstance(t, ast.Compare) and len(t.ops) == 1:
            l, r = sym(t.left, env, conds), sym(t.comparators[0], env, conds)
            op = t.ops[0]
            if isinstance(op, ast.Gt):
                return f"{l}>{r}"
            if isinstance(op, ast.LtE):
                return f"!({l}>{r})"
            if isinstance(op, ast.Lt):
                return f"{r}>{l}"
            if isinstance(op, ast.GtE):
                return f"!({r}>{l})"
            return f"{l} {type(op).__name__} {r}"
        if isinstance(t, ast.Call) and callee_name(t) == "isascii" and is_name(call_recv(t), sparam):
            return "ascii"
        if isinstance(t, ast.Name):
            return sym(t, env, conds)
        return "?" + text(t)

    def neg(c: str) -> str:
        if c.startswith("!(") and c.endswith(")"):
            return c[2:-1]
        if c.startswith("!"):
            return c[1:]
        return f"!({c})" if (">" in c or " " in c) else f"!{c}"

    paths: list[dict] = []

    def scan_expr(e: ast.AST, env: dict, conds: set) -> None:
        for c in ast.walk(e):
            if isinstance(c, ast.Call) and callee_name(c) == "write" and isinstance(call_recv(c), ast.Call) and callee_name(call_recv(c)) == "super":
                paths.append({"kind": "write", "conds": set(conds), "size": env["@size"], "node": c, "arg": c.args[0] if c.args else None})

    def block(body, env: dict, conds: set) -> list:
        states = [(env, conds)]
        for st in body:
            nxt = []
            for e_, c_ in states:
                nxt += stmt(st, dict(e_), set(c_))
            states = nxt
            if not states:
                break
        return states

    def stmt(st, env, conds) -> list:
        if isinstance(st, ast.Return):
            if st.value is not None:
                n0 = len(paths)
                scan_expr(st.value, env, conds)
                if len(paths) == n0:
                    paths.append({"kind": "return", "conds": set(conds), "size": env["@size"], "node": st})
            return []
        if isinstance(st, ast.Raise):
            paths.append({"kind": "raise", "conds": set(conds), "size": env["@size"], "node": st, "exc": text(st.exc.func if isinstance(st.exc, ast.Call) else st.exc).split(".")[-1] if st.exc is not None else ""})
            return []
        if isinstance(st, ast.If):
            tests = st.test.values if isinstance(st.test, ast.BoolOp) and isinstance(st.test.op, ast.And) else [st.test]
            cs = [cond(t, env, conds) for t in tests]
            out = block(st.body, env, conds | set(cs))
            neg_c = {neg(cs[0])} if len(cs) == 1 else {"!(" + "&".join(cs) + ")"}
            out += block(st.orelse, env, conds | neg_c) if st.orelse else [(env, conds | neg_c)]
            return out
        if isinstance(st, ast.AugAssign) and isinstance(st.op, ast.Add) and attr_chain(st.target) == ["self", "size"]:
            env["@size"] = add(env["@size"], sym(st.value, env, conds))
            return [(env, conds)]
        if isinstance(st, ast.Assign) and len(st.targets) == 1:
            scan_expr(st.value, env, conds)
            if attr_chain(st.targets[0]) == ["self", "size"]:
                env["@size"] = sym(st.value, env, conds)
            elif isinstance(st.targets[0], ast.Name):
                env[st.targets[0].id] = sym(st.value, env, conds)
            return [(env, conds)]
        if isinstance(st, ast.Expr):
            scan_expr(st.value, env, conds)
            return [(env, conds)]
        if isinstance(st, (ast.For, ast.While, ast.Try, ast.With)):
            paths.append({"kind": "opaque", "conds": set(conds), "size": env["@size"], "node": st})
            return []
        return [(env, conds)]

    for env_, c_ in block(w.node.body, {"@size": "S0"}, set()):
        paths.append({"kind": "return", "conds": set(c_), "size": env_["@size"], "node": w.node})
    return w, sparam, paths


def run(repo: Repo) -> Result:
    res = Result(PID)
    res.rules = ["C07-COUNT", "C07-BUFFER", "C07-TOP", "C07-LOCALS"]
    res.explanation = "counted-before-written flow rule + one-constructor-per-resource who-may rules"
    res.assumptions = ["sys.getsizeof is the property's own measure of namespace size"]

    # ---- C07-COUNT -----------------------------------------------------------
    # symbolic run of LimitedStringIO.write over all paths (counter S0, UTF-8 length N, limit L):
    # a non-empty string reaches super().write only with the counter at S0+N and `S0+N > L`
    # known false; what is written is the counted string
    w, sparam, wpaths = limited_write_paths(repo)
    res.ob(w.qual, 3)
    if len(w.params()) != 2:
        res.add("C07-COUNT", w.qual, "signature", "write(self, s) expected", w.file, w.line)
    writes = [p_ for p_ in wpaths if p_["kind"] == "write"]
    if not writes:
        res.add("C07-COUNT", w.qual, "no-super-write", "LimitedStringIO.write never writes", w.file, w.line)
    if any(p_["kind"] == "opaque" for p_ in wpaths):
        raise AnchorMissing("LimitedStringIO.write contains a loop / try / with: re-derive C07-COUNT")
    counted_somewhere = False
    for p_ in writes:
        if not is_name(p_["arg"], sparam):
            res.add("C07-COUNT", w.qual, "writes-other", f"writes `{text(p_['arg']) if p_['arg'] is not None else None}`, not the counted string", w.file, p_["node"].lineno)
        if "!s" in p_["conds"]:
            continue  # the empty string: zero bytes
        if p_["size"] == "N+S0":
            counted_somewhere = True
        if p_["size"] != "N+S0":
            if p_["size"] == "S0":
                res.add("C07-COUNT", w.qual, "no-utf8-increment", "LimitedStringIO.write does not count the UTF-8 bytes of its argument on a path that writes it", w.file, p_["node"].lineno)
            else:
                res.add("C07-COUNT", w.qual, f"increment:{p_['size'][:40]}", f"size must grow by len({sparam}.encode('utf-8')); on a path that writes, the counter is `{p_['size']}` (S0 = counter before, N = UTF-8 length)", w.file, p_["node"].lineno)
        elif "!(N+S0>L)" not in p_["conds"]:
            res.add("C07-COUNT", w.qual, "write-before-check", f"super().write is reachable without `size > limit` having been tested on the counted size (path conditions: {sorted(p_['conds'])})", w.file, p_["node"].lineno)
    if writes and not counted_somewhere and not any(f_.rule == "C07-COUNT" for f_ in res.findings):
        res.add("C07-COUNT", w.qual, "no-utf8-increment", "LimitedStringIO.write does not count the UTF-8 bytes of its argument", w.file, w.line)

    # ---- C07-BUFFER ------------------------------------------------------------
    n_ctor = 0
    for f in repo.all_functions():
        for c in calls(f.node, nested=True):
            if callee_name(c) in BUFFER_CTORS and not isinstance(c.func, ast.Attribute) or (
                isinstance(c.func, ast.Attribute) and c.func.attr in BUFFER_CTORS and text(call_recv(c)) == "io"
            ):
                if f.qual.startswith("liquid.output."):
                    continue
                n_ctor += 1
                res.ob(f"{f.qual}:{callee_name(c)}")
                if f.qual not in BUFFER_OWNERS:
                    res.add("C07-BUFFER", f.qual, f"ctor:{callee_name(c)}", f"{f.qual} constructs a {callee_name(c)} itself: output written there escapes the stream limit", f.file, c.lineno)
    if n_ctor < 4:
        raise AnchorMissing(f"expected 4 buffer constructions in the two owners, found {n_ctor}")
    from ..normalize import nfunc

    # (helpers inlined, `limit = self.env.output_stream_limit`-style aliases propagated)
    gb = nfunc(repo, repo.own_method("liquid.context.RenderContext", "get_buffer"))
    res.ob(gb.qual, 2)
    lim_calls = [c for c in calls(gb.node) if callee_name(c) == "LimitedStringIO"]
    bparam = [p for p in gb.params() if p != "self"][0]
    # path conditions: a limited child buffer gets `output_stream_limit - <parent>.size` wherever
    # the parent is a LimitedStringIO (an unlimited parent has nothing to carry) — as one
    # conditional expression or as two constructions under the isinstance test and its negation
    from ..guards import canon as _canon7
    from ..guards import conditions as _conds7
    from ..guards import inner_conditions as _inner7

    assigns = {t.id: st.value for st in walk_no_nested(gb.node) if isinstance(st, ast.Assign) for t in st.targets if isinstance(t, ast.Name)}
    is_lim = _canon7(ast.parse(f"isinstance({bparam}, LimitedStringIO)", mode="eval").body)
    not_lim = _canon7(ast.parse(f"not isinstance({bparam}, LimitedStringIO)", mode="eval").body)
    LIMIT_CHAIN = ["self", "env", "output_stream_limit"]
    ok = bool(lim_calls)
    carried = False
    for st7, cs7 in _conds7(gb.node):
        if isinstance(st7, (ast.If, ast.For, ast.While, ast.With, ast.Try)):
            continue
        cc7 = {_canon7(c) for c in cs7}
        for c in [x for x in ast.walk(st7) if isinstance(x, ast.Call) and callee_name(x) == "LimitedStringIO"]:
            kw = {k.arg: k.value for k in c.keywords}
            v = kw.get("limit") or (c.args[0] if c.args else None)
            if isinstance(v, ast.BinOp) and isinstance(v.op, ast.Sub) and attr_chain(v.left) == LIMIT_CHAIN:
                carry = v.right
                if isinstance(carry, ast.Name) and carry.id in assigns:
                    carry = assigns[carry.id]
                carry_name = v.right.id if isinstance(v.right, ast.Name) else None
                branch_assigns = [(st_, {_canon7(c_) for c_ in cs_}) for st_, cs_ in _conds7(gb.node) if isinstance(st_, ast.Assign) and len(st_.targets) == 1 and is_name(st_.targets[0], carry_name)] if carry_name else []
                if isinstance(carry, ast.IfExp) and attr_chain(carry.body) == [bparam, "size"] and _canon7(carry.test) == is_lim and isinstance(carry.orelse, ast.Constant) and carry.orelse.value == 0:
                    carried = True
                elif len(branch_assigns) >= 2 and all((attr_chain(st_.value) == [bparam, "size"] and is_lim in cc_) or (isinstance(st_.value, ast.Constant) and st_.value.value == 0 and not_lim in cc_) for st_, cc_ in branch_assigns) and any(attr_chain(st_.value) == [bparam, "size"] for st_, _ in branch_assigns):
                    # the same conditional written as a statement: the parent's size under the
                    # isinstance test, 0 under its negation
                    carried = True
                elif attr_chain(carry) == [bparam, "size"] and is_lim in cc7:
                    carried = True
                else:
                    ok = False
            elif v is not None and attr_chain(v) == LIMIT_CHAIN:
                if not_lim not in cc7:
                    ok = False  # no carry although the parent may be limited
            else:
                ok = False
    ok = ok and carried
    if not ok:
        res.add("C07-BUFFER", gb.qual, "carry", "get_buffer must give the child buffer `output_stream_limit - parent.size` (0 only when the parent is unlimited)", gb.file, gb.line)
    # an unlimited buffer exactly when no limit is configured: in both owners every plain
    # ``StringIO()`` is constructed under ``output_stream_limit is None`` and every limited one
    # under its negation.  (A truthiness test would make a limit of 0 mean "unlimited".)
    is_none = _canon7(ast.parse("self.env.output_stream_limit is None", mode="eval").body)
    not_none = _canon7(ast.parse("self.env.output_stream_limit is not None", mode="eval").body)
    for owner in sorted(BUFFER_OWNERS):
        cq, mn = owner.rsplit(".", 1)
        of = nfunc(repo, repo.own_method(cq, mn))
        res.ob(f"{owner}:unlimited-iff-none", 2)
        n_plain = n_lim = 0
        for st7, cs7 in _conds7(of.node):
            if isinstance(st7, (ast.If, ast.For, ast.While, ast.With, ast.Try)):
                continue
            inner = _inner7(st7)
            for c in [x for x in ast.walk(st7) if isinstance(x, ast.Call)]:
                cc7 = {_canon7(k) for k in list(cs7) + inner.get(id(c), [])}
                if callee_name(c) == "StringIO":
                    n_plain += 1
                    if is_none not in cc7:
                        res.add("C07-BUFFER", owner, "unlimited-without-none-test", f"{owner} constructs an unlimited StringIO where `output_stream_limit is None` is not known to hold (path conditions: {sorted(text(k) for k in cs7)}): with a limit of 0 — or whatever else that test lets through — the render is not limited at all", of.file, c.lineno)
                elif callee_name(c) == "LimitedStringIO":
                    n_lim += 1
                    if not_none not in cc7:
                        res.add("C07-BUFFER", owner, "limited-without-limit", f"{owner} constructs a LimitedStringIO where the limit may be None", of.file, c.lineno)
        if not n_plain or not n_lim:
            raise AnchorMissing(f"{owner}: expected one unlimited and one limited buffer construction")
    # call sites of get_buffer
    n_sites = 0
    for f in repo.all_functions():
        if f.qual == gb.qual:
            continue
        for c in calls(f.node, nested=True):
            if callee_name(c) == "get_buffer" and isinstance(c.func, ast.Attribute):
                n_sites += 1
                res.ob(f"{f.qual}:get_buffer")
                arg = c.args[0] if c.args else next((k.value for k in c.keywords if k.arg == "buf"), None)
                params = set(f.params())
                good = False
                if isinstance(arg, ast.Name) and arg.id in params and arg.id in ("buffer", "buf", "_buffer"):
                    good = True
                elif arg is not None and attr_chain(arg) == ["self", "buffer"]:
                    good = True  # BlockDrop keeps the buffer it was created with
                if not good:
                    res.add("C07-BUFFER", f.qual, "get_buffer-arg", f"{f.qual}: get_buffer({text(arg) if arg is not None else ''}) must receive the buffer currently rendered into, so its bytes are carried", f.file, c.lineno)
                res.sample({"rule": "C07-BUFFER", "site": f.qual, "call": text(c)})
    if n_sites < 5:
        raise AnchorMissing(f"expected >= 5 get_buffer call sites, found {n_sites}")

    # ---- C07-TOP ---------------------------------------------------------------
    for m, rw in (("render", "render_with_context"), ("render_async", "render_with_context_async")):
        f = repo.own_method("liquid.template.BoundTemplate", m)
        res.ob(f.qual)
        bufvars = {t.id for st in walk_no_nested(f.node) if isinstance(st, ast.Assign) and isinstance(st.value, ast.Call) and callee_name(st.value) == "_get_buffer" for t in st.targets if isinstance(t, ast.Name)}
        rcalls = [c for c in calls(f.node) if callee_name(c) == rw]
        rets = [s for s in walk_no_nested(f.node) if isinstance(s, ast.Return)]
        good = (
            len(bufvars) == 1
            and len(rcalls) == 1
            and len(rcalls[0].args) >= 2
            and isinstance(rcalls[0].args[1], ast.Name)
            and rcalls[0].args[1].id in bufvars
            and len(rets) == 1
            and isinstance(rets[0].value, ast.Call)
            and callee_name(rets[0].value) == "getvalue"
            and isinstance(call_recv(rets[0].value), ast.Name)
            and call_recv(rets[0].value).id in bufvars
        )
        if not good:
            res.add("C07-TOP", f.qual, "buffer", f"{f.qual} must render into the buffer from _get_buffer() and return its getvalue()", f.file, f.line)

    # ---- C07-LOCALS ------------------------------------------------------------
    n_store = 0
    for f in repo.all_functions():
        for n in ast.walk(f.node):
            tgts = []
            if isinstance(n, ast.Assign):
                tgts = n.targets
            elif isinstance(n, (ast.AugAssign, ast.AnnAssign)):
                tgts = [n.target]
            elif isinstance(n, ast.Delete):
                tgts = n.targets
            for t in tgts:
                if isinstance(t, ast.Subscript) and isinstance(t.value, ast.Attribute) and t.value.attr == "locals":
                    n_store += 1
                    res.ob(f"{f.qual}:locals-store")
                    if f.qual != "liquid.context.RenderContext.assign":
                        res.add("C07-LOCALS", f.qual, "locals-store", f"{f.qual} writes `{text(t)}` directly, bypassing RenderContext.assign and its limit check", f.file, n.lineno)
            if isinstance(n, ast.Call) and isinstance(n.func, ast.Attribute) and n.func.attr in ("update", "setdefault", "pop", "clear", "__setitem__") and isinstance(call_recv(n), ast.Attribute) and call_recv(n).attr == "locals":
                res.ob(f"{f.qual}:locals-mutate")
                res.add("C07-LOCALS", f.qual, f"locals-{n.func.attr}", f"{f.qual} mutates locals via .{n.func.attr}() outside RenderContext.assign", f.file, n.lineno)
    if n_store < 1:
        raise AnchorMissing("RenderContext.assign no longer stores into self.locals")
    asg = nfunc(repo, repo.own_method("liquid.context.RenderContext", "assign"), keep=("get_size_of_locals",))
    res.ob(asg.qual, 2)
    state = {"guard_after_store": False}

    def gen2(st):
        if isinstance(st, ast.Assign) and any(isinstance(t, ast.Subscript) and attr_chain(t.value) == ["self", "locals"] for t in st.targets):
            return {"stored"}
        return set()

    def visit2(node, st):
        if isinstance(node, ast.expr):
            # an If test: the limit guard
            src = text(node)
            if "get_size_of_locals()" in src and "local_namespace_limit" in src and "stored" in st:
                state["guard_after_store"] = True

    MustFlow(gen=gen2, visit=visit2).run(asg.node)
    # the guard runs on *every* assignment: its only conjuncts are the limit-enabled test and
    # the measure comparison (re-binding a name can grow the namespace as much as a new name)
    for n in ast.walk(asg.node):
        if isinstance(n, ast.If) and "get_size_of_locals()" in text(n.test):
            conj = n.test.values if isinstance(n.test, ast.BoolOp) and isinstance(n.test.op, ast.And) else [n.test]
            extra = [c for c in conj if "local_namespace_limit" not in text(c)]
            if extra or isinstance(n.test, ast.BoolOp) and isinstance(n.test.op, ast.Or):
                res.add("C07-LOCALS", asg.qual, f"guard-extra-condition:{text(extra[0])[:30] if extra else 'or'}", f"assign checks the namespace limit only when `{text(extra[0]) if extra else text(n.test)}` holds: assignments that skip the check can grow the namespace past the limit", asg.file, n.lineno)
    # ... and nothing returns before it
    for n in walk_no_nested(asg.node):
        if isinstance(n, ast.Return):
            res.add("C07-LOCALS", asg.qual, "early-return", "assign returns on some path: the limit check after the store must run on every assignment", asg.file, n.lineno)
    if not state["guard_after_store"]:
        res.add("C07-LOCALS", asg.qual, "guard-after-store", "assign must test get_size_of_locals() > local_namespace_limit after storing the value", asg.file, asg.line)
    gs = repo.own_method("liquid.context.RenderContext", "get_size_of_locals")
    res.ob(gs.qual)
    rets = [s for s in walk_no_nested(gs.node) if isinstance(s, ast.Return)]
    main = [r for r in rets if not (isinstance(r.value, ast.Constant))]
    if not main or not all("self.local_namespace_size_carry" in text(r.value) and "self.locals" in text(r.value) and isinstance(r.value, ast.BinOp) and isinstance(r.value.op, ast.Add) for r in main):
        res.add("C07-LOCALS", gs.qual, "carry", "get_size_of_locals must return the size of self.locals plus local_namespace_size_carry", gs.file, gs.line)
    cp = repo.own_method("liquid.context.RenderContext", "copy")
    ctor_calls = [c for c in calls(cp.node) if text(c.func) in ("self.__class__", "RenderContext", "type(self)")]
    if not ctor_calls:
        raise AnchorMissing("RenderContext.copy constructs no context")
    for c in ctor_calls:
        res.ob(f"{cp.qual}:ctor")
        kw = {k.arg: k.value for k in c.keywords}
        v = kw.get("local_namespace_size_carry")
        if not (isinstance(v, ast.Call) and callee_name(v) == "get_size_of_locals" and is_self_attr(v.func)):
            res.add("C07-LOCALS", cp.qual, f"ctor-carry:{text(v) if v is not None else 'missing'}", "every context built by copy must receive local_namespace_size_carry=self.get_size_of_locals()", cp.file, c.lineno)
    # other constructions of a render context with a parent
    res.stats.update(buffer_ctors=n_ctor, get_buffer_sites=n_sites, locals_stores=n_store, copy_ctor_calls=len(ctor_calls))
    return res


def selftest(repo: Repo):
    from ..selftest import Variant, text_edit

    def v(name, rel, old, new, expect, count=1):
        return lambda: Variant(name, text_edit(repo, rel, old, new, count), expect)

    OUT = "liquid/output.py"
    CTX = "liquid/context.py"
    return [
        v("count-chars-not-bytes", OUT, 'self.size += len(__s.encode("utf-8"))', "self.size += len(__s)", "C07-COUNT"),
        v("write-before-check", OUT, '        if __s:\n            self.size += len(__s.encode("utf-8"))\n            if self.size > self.limit:\n                raise OutputStreamLimitError("output stream limit reached", token=None)\n        return super().write(__s)', '        n = super().write(__s)\n        if __s:\n            self.size += len(__s.encode("utf-8"))\n            if self.size > self.limit:\n                raise OutputStreamLimitError("output stream limit reached", token=None)\n        return n', "C07-COUNT"),
        v("capture-own-stringio", "liquid/builtin/tags/capture_tag.py", "        buf = context.get_buffer(buffer)\n        self.block.render(context, buf)", "        buf = StringIO()\n        self.block.render(context, buf)", "C07-BUFFER"),
        v("get_buffer-without-parent", "liquid/builtin/tags/ifchanged_tag.py", "        buf = context.get_buffer(buffer)\n        self.block.render(context, buf)", "        buf = context.get_buffer()\n        self.block.render(context, buf)", "C07-BUFFER"),
        v("no-carry", CTX, "        return LimitedStringIO(limit=self.env.output_stream_limit - carry)", "        return LimitedStringIO(limit=self.env.output_stream_limit)", "C07-BUFFER"),
        v("check-only-new-names", CTX, "        self.locals[key] = val\n        if (\n            self.env.local_namespace_limit is not None\n", "        is_new = key not in self.locals\n        self.locals[key] = val\n        if (\n            is_new\n            and self.env.local_namespace_limit is not None\n", "C07-LOCALS"),
        v("locals-store-elsewhere", "liquid/builtin/tags/assign_tag.py", "        context.assign(self.name, self.expression.evaluate(context))", "        context.locals[self.name] = self.expression.evaluate(context)", "C07-LOCALS"),
        v("check-before-store", CTX, "        self.locals[key] = val\n        if (\n            self.env.local_namespace_limit is not None\n            and self.get_size_of_locals() > self.env.local_namespace_limit\n        ):\n            raise LocalNamespaceLimitError(\"local namespace limit reached\", token=None)\n", "        if (\n            self.env.local_namespace_limit is not None\n            and self.get_size_of_locals() > self.env.local_namespace_limit\n        ):\n            raise LocalNamespaceLimitError(\"local namespace limit reached\", token=None)\n        self.locals[key] = val\n", "C07-LOCALS"),
        v("copy-drops-size-carry", CTX, "                local_namespace_size_carry=self.get_size_of_locals(),\n            )\n\n        return ctx", "                local_namespace_size_carry=0,\n            )\n\n        return ctx", "C07-LOCALS"),
        v("size-ignores-carry", CTX, "            + self.local_namespace_size_carry\n", "            + 0\n", "C07-LOCALS"),
        v("render-uses-plain-buffer", "liquid/template.py", "        buf = self._get_buffer()\n        self.render_with_context(context, buf)", "        buf = StringIO()\n        self.render_with_context(context, buf)", "C07-"),
    ]
